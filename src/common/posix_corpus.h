// Corpus of POSIX-TZ strings (grammar sentences with every part alphabet,
// structural variants) shared by C16 (parser conformance) and C12 (footer
// replacement).  Acceptance is decided by the reference recogniser only.
#ifndef VERIF_POSIX_CORPUS_H_
#define VERIF_POSIX_CORPUS_H_

#include <set>
#include <string>
#include <vector>

#include "ref_posix.h"

inline void c16_sentences(bool thorough, std::vector<std::string>* out, std::vector<std::string>* accepted_seeds) {
  const std::vector<std::string> abbr = {"AB", "ABC", "ABCDEFGH", "<>", "<+03>", "<-0330>", "<A B>", "<", "A1C", "", "abc", "<AB", "A,B"};
  std::vector<std::string> off;
  for (const char* sg : {"", "+", "-"}) for (const char* h : {"0", "1", "9", "12", "24", "25", "024", "", "00000000000000000005", "4294967301", "99999999999999999999", "240", "245", "2400000000000000000000"}) for (const char* m : {"", ":0", ":59", ":60", ":5", ":", ":590", ":059"}) for (const char* sc : {"", ":0", ":59", ":60", ":599"}) {
    if (std::string(m).empty() && !std::string(sc).empty()) continue;
    off.push_back(std::string(sg) + h + m + sc);
  }
  const std::vector<std::string> dabbr = {"DST", "<+04>", "AB", "<>", "D5T"};
  const std::vector<std::string> doff = {"", "4", "-4:30", "+4:30:15", "25", "24", "-24:59:59", "4:60"};
  const std::vector<std::string> date = {"J0", "J1", "J59", "J60", "J365", "J366", "0", "59", "365", "366", "M1.1.0", "M12.5.6", "M0.1.0", "M13.1.0", "M1.0.0", "M1.6.0", "M1.1.7", "M3.2", "M3", "M3.2.0.1", "J", "M", "", "-1", "J-1", "M3.-2.0", "J3650", "J0365", "3657", "3650", "M120.2.0", "M3.52.0", "M11.1.61", "M012.05.06"};
  const std::vector<std::string> tim = {"", "/0", "/2", "/24", "/26", "/167", "/168", "/-1", "/-167", "/-168", "/1:30", "/1:30:45", "/+2", "/2:60", "/", "/2:", "/1:30:60", "/-0:0:1", "/1670", "/-1671", "/0167", "/1:590"};
  auto rule = [](const std::string& d1, const std::string& t1, const std::string& d2, const std::string& t2) { return "," + d1 + t1 + "," + d2 + t2; };
  const std::string A0 = "EST", O0 = "5", DA0 = "EDT", DO0 = "", R0 = rule("M3.2.0", "", "M11.1.0", "");
  const std::string A1 = "<+0330>", O1 = "-3:30", DA1 = "<+0430>", DO1 = "-4:30", R1 = rule("J79", "/24", "265", "/-1");
  std::set<std::string> S;
  for (int setting = 0; setting < 2; ++setting) {
    const std::string &A = setting ? A1 : A0, &O = setting ? O1 : O0, &DA = setting ? DA1 : DA0, &DO = setting ? DO1 : DO0, &R = setting ? R1 : R0;
    for (auto& x : abbr) { S.insert(x + O); S.insert(x + O + DA + DO + R); }
    for (auto& x : off) { S.insert(A + x); S.insert(A + x + DA + DO + R); }
    for (auto& x : dabbr) for (auto& y : doff) { S.insert(A + O + x + y + R); S.insert(A + O + x + y); S.insert(A + O + x + y + ",M3.2.0"); }
    for (auto& d : date) for (auto& t : tim) {
      S.insert(A + O + DA + DO + rule(d, t, "M11.1.0", ""));
      S.insert(A + O + DA + DO + rule("M3.2.0", "/1", d, t));
    }
    // structure: dropped / extra parts, trailing bytes
    for (const char* tail : {"", ",", ",M3.2.0", ",M3.2.0,", ",M3.2.0,M11.1.0,M12.1.0", ",M3.2.0,M11.1.0 ", ",M3.2.0,M11.1.0/", ",M3.2.0/2/3,M11.1.0", ",,", "/2", ",M3.2.0;M11.1.0", ",M3.2.0,M11.1.0x"})
      S.insert(A + O + DA + DO + tail);
    S.insert(":" + A + O);
    S.insert(" " + A + O);
    S.insert(A + " " + O);
  }
  if (thorough) {
    // pairs: every date x every time for BOTH positions simultaneously (reduced), every offset for std AND dst
    for (auto& d1 : date) for (auto& d2 : date) S.insert(A0 + O0 + DA0 + rule(d1, "/3", d2, "/-1"));
    for (auto& t1 : tim) for (auto& t2 : tim) S.insert(A0 + O0 + DA0 + rule("J60", t1, "300", t2));
    for (auto& x : off) for (auto& y : off) S.insert("AAA" + x + "BBB" + y + R0);
    for (auto& x : abbr) for (auto& y : abbr) { S.insert(x + "3" + y + ",0,1"); S.insert(x + "-3" + y + "4,0,1"); }
  }
  for (auto& s : S) {
    out->push_back(s);
    ref::Posix w;
    if (ref::parse_posix(s, &w)) accepted_seeds->push_back(s);
  }
}


#endif  // VERIF_POSIX_CORPUS_H_
