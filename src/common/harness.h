// Shared harness runtime: counters / behaviour classes / samples / violations,
// fork-based static sharding with crash + hang detection, result file output.
// No RNG anywhere; shards are static partitions of a deterministic enumeration.
#ifndef VERIF_HARNESS_H_
#define VERIF_HARNESS_H_

#include <fcntl.h>
#include <signal.h>
#include <sys/mman.h>
#include <sys/stat.h>
#include <sys/wait.h>
#include <time.h>
#include <unistd.h>

#include <cstdio>
#include <cstdlib>
#include <cstring>
#include <fstream>
#include <functional>
#include <map>
#include <set>
#include <sstream>
#include <string>
#include <vector>

namespace hz {

inline double now_s() {
  timespec ts;
  clock_gettime(CLOCK_MONOTONIC, &ts);
  return ts.tv_sec + ts.tv_nsec * 1e-9;
}

inline std::string jstr(const std::string& s) {
  std::string o = "\"";
  for (unsigned char c : s) {
    switch (c) {
      case '"': o += "\\\""; break;
      case '\\': o += "\\\\"; break;
      case '\n': o += "\\n"; break;
      case '\r': o += "\\r"; break;
      case '\t': o += "\\t"; break;
      default:
        if (c < 0x20 || c >= 0x7f) {
          char b[8];
          snprintf(b, sizeof b, "\\u%04x", c);
          o += b;
        } else {
          o += static_cast<char>(c);
        }
    }
  }
  return o + "\"";
}
inline std::string hex(const std::string& s) {
  static const char* d = "0123456789abcdef";
  std::string o;
  for (unsigned char c : s) { o += d[c >> 4]; o += d[c & 15]; }
  return o;
}
inline std::string unhex(const std::string& s) {
  std::string o;
  auto v = [](char c) { return c <= '9' ? c - '0' : (c | 32) - 'a' + 10; };
  for (size_t i = 0; i + 1 < s.size(); i += 2)
    o += static_cast<char>((v(s[i]) << 4) | v(s[i + 1]));
  return o;
}

struct Result {
  std::map<std::string, long long> counters;
  std::map<std::string, long long> classes;
  std::vector<std::string> samples;     // JSON values
  std::vector<std::string> violations;  // JSON objects
  long long nviol = 0;
  long long resume_from = -1;  // checkpoint files only: every case with a smaller id is accounted for in this Result
  long long ndup = 0;   // violations not recorded because kPerKey records with the same classification key exist
  std::map<std::string, int> keycount_;
  static const int kPerKey = 3;
  bool exhaustive = true;
  std::vector<std::string> notes;
  std::map<std::string, int> seen_;
  static const size_t kMaxViol = 8000;
  static const size_t kMaxSamples = 12;

  void count(const std::string& k, long long n = 1) { counters[k] += n; }
  void cls(const std::string& k, long long n = 1) { classes[k] += n; }
  void sample(const std::string& json) {
    if (samples.size() < kMaxSamples) samples.push_back(json);
  }
  // sig: stable signature used for known-finding matching;
  // replay_args: arguments that make this harness re-run just this case.
  // key (optional): a classification key such that any two violations with the same key are classified
  // identically by the driver (same signature, same facts the known-findings predicates read); only the
  // first kPerKey of them are recorded, the rest are counted in ndup / counters["viol:..."].
  static std::string key_of(const std::string& rec) {
    if (rec.compare(0, 8, "{\"key\":\"") != 0) return "";
    size_t e = rec.find("\",\"sig\":", 8);
    return e == std::string::npos ? "" : rec.substr(8, e - 8);
  }
  bool admit(const std::string& rec) {   // per-key cap then global cap; returns false if dropped
    const std::string k = key_of(rec);
    if (!k.empty() && ++keycount_[k] > kPerKey) { ++ndup; return false; }
    if (violations.size() >= kMaxViol) return false;
    violations.push_back(rec);
    return true;
  }
  void violation(const std::string& sig, const std::string& msg,
                 const std::vector<std::string>& replay_args, const std::string& key = "") {
    ++nviol;
    counters["viol:" + sig]++;
    if (!key.empty()) {
      std::string kk;
      for (char ch : key) kk.push_back((ch == '"' || ch == '\\' || static_cast<unsigned char>(ch) < 0x20) ? '_' : ch);
      if (keycount_[kk] >= kPerKey) { ++keycount_[kk]; ++ndup; return; }
      const std::string shown = msg.size() <= 1500 ? msg : msg.substr(0, 1500);
      std::string j = "{\"key\":\"" + kk + "\",\"sig\":" + jstr(sig) + ",\"msg\":" + jstr(shown) + ",\"replay_args\":[";
      for (size_t i = 0; i < replay_args.size(); ++i) j += (i ? "," : "") + jstr(replay_args[i]);
      j += "]}";
      admit(j);
      return;
    }
    // keep the recorded list diverse: at most 2 records per (sig, message head)
    if (violations.size() >= kMaxViol) return;
    // every violation is recorded (the driver must be able to classify each one against the
    // known-findings file); long messages are shortened once many have been recorded
    const std::string shown = (violations.size() < 60 || msg.size() <= 700) ? msg : msg.substr(0, 700);
    std::string j = "{\"sig\":" + jstr(sig) + ",\"msg\":" + jstr(shown) +
                    ",\"replay_args\":[";
    for (size_t i = 0; i < replay_args.size(); ++i)
      j += (i ? "," : "") + jstr(replay_args[i]);
    j += "]}";
    violations.push_back(j);
  }
  void note(const std::string& n) { notes.push_back(n); }

  void merge(const Result& o) {
    for (auto& kv : o.counters) counters[kv.first] += kv.second;
    for (auto& kv : o.classes) classes[kv.first] += kv.second;
    for (auto& s : o.samples) sample(s);
    for (auto& v : o.violations) admit(v);
    nviol += o.nviol;
    ndup += o.ndup;
    exhaustive = exhaustive && o.exhaustive;
    for (auto& n : o.notes)
      if (notes.size() < 50) notes.push_back(n);
  }

  void save_lines(const std::string& path) const {
    std::ofstream f(path, std::ios::binary);
    for (auto& kv : counters) f << "c\t" << kv.first << "\t" << kv.second << "\n";
    for (auto& kv : classes) f << "k\t" << kv.first << "\t" << kv.second << "\n";
    for (auto& s : samples) f << "s\t" << s << "\n";
    for (auto& v : violations) f << "v\t" << v << "\n";
    for (auto& n : notes) f << "n\t" << hex(n) << "\n";
    f << "x\t" << (exhaustive ? 1 : 0) << "\t" << nviol << "\t" << ndup << "\n";
    if (resume_from >= 0) f << "r\t" << resume_from << "\n";
    f << "END\n";
  }
  bool load_lines(const std::string& path) {
    std::ifstream f(path, std::ios::binary);
    if (!f) return false;
    std::string line;
    bool ended = false;
    while (std::getline(f, line)) {
      if (line == "END") { ended = true; break; }
      if (line.size() < 2) continue;
      char t = line[0];
      std::string rest = line.substr(2);
      if (t == 'c' || t == 'k') {
        size_t p = rest.rfind('\t');
        long long v = atoll(rest.c_str() + p + 1);
        (t == 'c' ? counters : classes)[rest.substr(0, p)] += v;
      } else if (t == 's') {
        sample(rest);
      } else if (t == 'v') {
        admit(rest);
      } else if (t == 'n') {
        notes.push_back(unhex(rest));
      } else if (t == 'r') {
        resume_from = atoll(rest.c_str());
      } else if (t == 'x') {
        size_t p = rest.find('\t');
        if (rest[0] == '0') exhaustive = false;
        nviol += atoll(rest.c_str() + p + 1);
        size_t q = rest.find('\t', p + 1);
        if (q != std::string::npos) ndup += atoll(rest.c_str() + q + 1);
      }
    }
    return ended;
  }

  std::string to_json() const {
    std::ostringstream o;
    o << "{\n \"counters\":{";
    bool first = true;
    for (auto& kv : counters) { o << (first ? "" : ",") << jstr(kv.first) << ":" << kv.second; first = false; }
    o << "},\n \"classes\":{";
    first = true;
    for (auto& kv : classes) { o << (first ? "" : ",") << jstr(kv.first) << ":" << kv.second; first = false; }
    o << "},\n \"samples\":[";
    for (size_t i = 0; i < samples.size(); ++i) o << (i ? ",\n  " : "") << samples[i];
    o << "],\n \"violations\":[";
    for (size_t i = 0; i < violations.size(); ++i) o << (i ? ",\n  " : "") << violations[i];
    o << "],\n \"violation_count\":" << nviol << ",\n \"dup_dropped\":" << ndup << ",\n \"exhaustive\":" << (exhaustive ? "true" : "false") << ",\n \"notes\":[";
    for (size_t i = 0; i < notes.size(); ++i) o << (i ? "," : "") << jstr(notes[i]);
    o << "]\n}\n";
    return o.str();
  }
};

// ---------------------------------------------------------------------------
// Command line / environment
struct Args {
  std::string tier = "quick";
  std::string out = "";
  std::string repo = "/repo";
  std::string workdir = "";   // scratch dir (under /verif/build), exists
  std::string prop = "";
  long long seed = 0;
  int workers = 16;
  double deadline_s = 1e18;   // absolute (now_s based)
  std::vector<std::string> extra;  // harness-specific / replay args
  bool has(const std::string& k) const {
    for (auto& e : extra) if (e == k) return true;
    return false;
  }
  std::string get(const std::string& k, const std::string& def = "") const {
    for (size_t i = 0; i + 1 < extra.size(); ++i) if (extra[i] == k) return extra[i + 1];
    return def;
  }
  bool thorough() const { return tier == "thorough"; }
  bool time_up() const { return now_s() > deadline_s; }
};

inline Args parse_args(int argc, char** argv) {
  Args a;
  for (int i = 1; i < argc; ++i) {
    std::string s = argv[i];
    auto next = [&]() { return std::string(i + 1 < argc ? argv[++i] : ""); };
    if (s == "--tier") a.tier = next();
    else if (s == "--out") a.out = next();
    else if (s == "--repo") a.repo = next();
    else if (s == "--workdir") a.workdir = next();
    else if (s == "--prop") a.prop = next();
    else if (s == "--seed") a.seed = atoll(next().c_str());
    else if (s == "--workers") a.workers = atoi(next().c_str());
    else if (s == "--budget") a.deadline_s = now_s() + atof(next().c_str());
    else a.extra.push_back(s);
  }
  if (a.workers < 1) a.workers = 1;
  return a;
}

// ---------------------------------------------------------------------------
// Per-worker shared page: what the child is doing right now.
struct Slot {
  volatile long long progress;  // bumped by the child on every case
  volatile long long case_id;   // id of the case being executed
  long long raw[8];             // cheap binary descriptor of the innermost case (harness-defined)
  char what[3700];              // human-readable descriptor of current case
};
inline Slot*& cur_slot() { static Slot* s = nullptr; return s; }
inline bool& mark_cases() { static bool m = false; return m; }  // write a marker line to stderr per case (attribution of sanitizer output)
// Checkpointing (opt-in, PoolOpts.resume): a shard whose case ids increase monotonically saves its Result every
// few seconds at a case boundary; when the child dies, the parent keeps the checkpoint and the restarted child
// skips every case below the checkpoint instead of re-executing the whole shard.
struct Ckpt { Result* r = nullptr; std::string path; double last = 0; };
inline Ckpt& ckpt() { static Ckpt c; return c; }
inline void begin_case(long long id, const std::string& what) {
  Slot* s = cur_slot();
  if (!s) return;
  Ckpt& ck = ckpt();
  if (ck.r && now_s() - ck.last > 2.0) {
    ck.r->resume_from = id;
    ck.r->save_lines(ck.path + ".tmp");
    ck.r->resume_from = -1;
    rename((ck.path + ".tmp").c_str(), ck.path.c_str());
    ck.last = now_s();
  }
  if (mark_cases()) { char mk[64]; int n = snprintf(mk, sizeof mk, "\n@@case %lld\n", id); if (write(2, mk, n) < 0) {} }
  s->case_id = id;
  s->progress = s->progress + 1;
  size_t n = std::min(what.size(), sizeof(s->what) - 1);
  memcpy(s->what, what.data(), n);
  s->what[n] = 0;
}
inline void set_raw(const long long* v, int n) { if (Slot* s = cur_slot()) for (int i = 0; i < n && i < 8; ++i) s->raw[i] = v[i]; }
inline void tick() { if (Slot* s = cur_slot()) s->progress = s->progress + 1; }

struct ShardCtl {
  int shard;
  std::set<long long> skip;  // case ids that crashed/hung earlier: skip them
  long long resume_from = -1;  // PoolOpts.resume: cases with a smaller id are already accounted for (checkpoint of a child that died)
  bool skipped(long long id) const { return skip.count(id) != 0; }
};

inline std::string slurp(const std::string& path, size_t max = 6000) {
  std::ifstream f(path, std::ios::binary);
  std::ostringstream ss;
  ss << f.rdbuf();
  std::string s = ss.str();
  if (s.size() > max) s.resize(max);
  return s;
}

// Extract "kind@function" from a sanitizer report (best effort).
inline std::string sanitizer_signature(const std::string& log) {
  std::string kind = "crash";
  size_t p;
  if ((p = log.find("runtime error: ")) != std::string::npos) {
    size_t e = log.find('\n', p);
    std::string m = log.substr(p + 15, e - p - 15);
    if (m.find("signed integer overflow") != std::string::npos) kind = "ubsan:signed-integer-overflow";
    else if (m.find("shift") != std::string::npos) kind = "ubsan:shift";
    else if (m.find("index") != std::string::npos && m.find("out of bounds") != std::string::npos) kind = "ubsan:index-out-of-bounds";
    else if (m.find("load of value") != std::string::npos) kind = "ubsan:invalid-value-load";
    else if (m.find("null pointer") != std::string::npos) kind = "ubsan:null";
    else if (m.find("negation of") != std::string::npos) kind = "ubsan:negation-overflow";
    else if (m.find("division by zero") != std::string::npos) kind = "ubsan:div-by-zero";
    else if (m.find("outside the range of representable") != std::string::npos) kind = "ubsan:float-cast-overflow";
    else kind = "ubsan:" + m.substr(0, 40);
  } else if ((p = log.find("ThreadSanitizer: ")) != std::string::npos) {
    size_t e = log.find_first_of("(\n", p + 17);
    kind = "tsan:" + log.substr(p + 17, e - p - 17);
    while (!kind.empty() && kind.back() == ' ') kind.pop_back();
    for (char& ch : kind) if (ch == ' ') ch = '-';
  } else if ((p = log.find("AddressSanitizer: ")) != std::string::npos) {
    size_t e = log.find_first_of(" \n", p + 18);
    kind = "asan:" + log.substr(p + 18, e - p - 18);
  } else if ((p = log.find("MemorySanitizer: ")) != std::string::npos) {
    size_t e = log.find_first_of(" \n", p + 17);
    kind = "msan:" + log.substr(p + 17, e - p - 17);
  } else if (log.find("Assertion") != std::string::npos) {
    kind = "assert";
  }
  if (kind.compare(0, 5, "ubsan") == 0 && log.find("Assertion") != std::string::npos) kind += "+assert";
  // innermost cctz frame: first "in cctz::..." after the report start
  std::string fn = "?";
  size_t q = log.find(" in cctz::");
  if (q != std::string::npos) {
    size_t s = q + 4;
    size_t e = log.find_first_of("( \n", s);
    fn = log.substr(s, e - s);
  } else if ((q = log.find("time_zone_")) != std::string::npos ||
             (q = log.find("civil_time_detail.h")) != std::string::npos) {
    size_t e = log.find_first_of(": \n", q);
    fn = log.substr(q, e - q);
    // add line number when present
    if (e != std::string::npos && log[e] == ':') {
      size_t e2 = log.find_first_not_of("0123456789", e + 1);
      fn += log.substr(e, e2 - e);
    }
  }
  return kind + "@" + fn;
}

struct PoolOpts {
  int workers = 16;
  double hang_s = 300;      // no progress for this long => hang
  int max_restarts = 6;     // per shard
  bool hang_is_violation = false;  // otherwise a hang marks the run non-exhaustive
  bool crash_is_violation = true;  // false: abnormal exits are only counted (auxiliary builds)
  std::function<std::string(const std::string& what)> crash_key;  // optional: classification key of a crash from the case descriptor (see Result::violation)
  bool resume = false;      // the shard function enumerates strictly increasing case ids and honours ShardCtl::resume_from
  std::string prop = "";
};

// Runs fn(ctl, result) for every shard in its own forked child (at most
// opts.workers at a time).  A child that dies is reported as a violation
// carrying the sanitizer signature and the descriptor of the case it was
// executing; the shard is then re-run with that case skipped.
inline void run_shards(int nshards, const PoolOpts& opts, const std::string& workdir,
                       const std::function<void(const ShardCtl&, Result&)>& fn,
                       Result* total,
                       const std::function<std::vector<std::string>(long long case_id, const std::string& what)>& replay_of = nullptr) {
  struct Live { pid_t pid; int shard; Slot* slot; long long last_progress; double last_change; };
  std::vector<Live> live;
  std::vector<std::set<long long>> skips(nshards);
  std::vector<long long> resume(nshards, -1);
  std::vector<Result> partial(opts.resume ? nshards : 0);
  std::vector<int> restarts(nshards, 0);
  std::vector<int> queue;
  for (int i = nshards - 1; i >= 0; --i) queue.push_back(i);
  Slot* slots = static_cast<Slot*>(mmap(nullptr, sizeof(Slot) * opts.workers, PROT_READ | PROT_WRITE, MAP_SHARED | MAP_ANONYMOUS, -1, 0));
  std::vector<bool> slot_used(opts.workers, false);
  auto res_path = [&](int sh) { return workdir + "/shard" + std::to_string(sh) + ".res"; };
  auto err_path = [&](int sh) { return workdir + "/shard" + std::to_string(sh) + ".err"; };

  while (!queue.empty() || !live.empty()) {
    while (!queue.empty() && static_cast<int>(live.size()) < opts.workers) {
      int sh = queue.back();
      queue.pop_back();
      int si = 0;
      while (slot_used[si]) ++si;
      slot_used[si] = true;
      Slot* slot = &slots[si];
      memset(slot, 0, sizeof(Slot));
      slot->case_id = -1;
      unlink(res_path(sh).c_str());
      unlink((res_path(sh) + ".ckpt").c_str());
      fflush(stdout);
      fflush(stderr);
      pid_t pid = fork();
      if (pid == 0) {
        int fd = open(err_path(sh).c_str(), O_WRONLY | O_CREAT | O_TRUNC, 0644);
        if (fd >= 0) { dup2(fd, 2); close(fd); }
        cur_slot() = slot;
        ShardCtl ctl{sh, skips[sh]};
        ctl.resume_from = resume[sh];
        Result r;
        if (opts.resume) { ckpt().r = &r; ckpt().path = res_path(sh) + ".ckpt"; ckpt().last = now_s(); }
        fn(ctl, r);
        ckpt().r = nullptr;
        r.save_lines(res_path(sh));
        fflush(nullptr);
        _exit(0);
      }
      live.push_back({pid, sh, slot, 0, now_s()});
    }
    // poll
    bool reaped = false;
    for (size_t i = 0; i < live.size();) {
      int st = 0;
      pid_t w = waitpid(live[i].pid, &st, WNOHANG);
      bool hung = false;
      if (w == 0) {
        long long p = live[i].slot->progress;
        if (p != live[i].last_progress) { live[i].last_progress = p; live[i].last_change = now_s(); }
        else if (now_s() - live[i].last_change > opts.hang_s) {
          kill(live[i].pid, SIGKILL);
          waitpid(live[i].pid, &st, 0);
          hung = true;
          w = live[i].pid;
        }
      }
      if (w == 0) { ++i; continue; }
      reaped = true;
      Live L = live[i];
      live.erase(live.begin() + i);
      int si = static_cast<int>(L.slot - slots);
      slot_used[si] = false;
      bool ok = !hung && WIFEXITED(st) && WEXITSTATUS(st) == 0;
      Result r;
      if (ok && r.load_lines(res_path(L.shard))) {
        if (opts.resume) total->merge(partial[L.shard]);
        total->merge(r);
        continue;
      }
      if (opts.resume) {  // keep what the dead child had checkpointed; the restart resumes behind it
        Result ck;
        if (ck.load_lines(res_path(L.shard) + ".ckpt") && ck.resume_from > resume[L.shard]) {
          resume[L.shard] = ck.resume_from;
          ck.resume_from = -1;
          partial[L.shard].merge(ck);
          total->count("shard_resumes");
        }
      }
      // abnormal end
      long long cid = L.slot->case_id;
      std::string what = L.slot->what;
      what += " | raw:";
      for (int q = 0; q < 8; ++q) what += " " + std::to_string(L.slot->raw[q]);
      std::string log = slurp(err_path(L.shard), 1 << 26);
      {  // only what was printed while the dying case was running
        size_t mk = log.rfind("\n@@case ");
        if (mk != std::string::npos) log = log.substr(mk);
        if (log.size() > 6000) log.resize(6000);
      }
      std::string sig = hung ? "hang@" + what.substr(0, what.find_first_of(": ")) : sanitizer_signature(log);
      std::vector<std::string> ra;
      if (replay_of) ra = replay_of(cid, what);
      if (!opts.crash_is_violation) {
        total->count(hung ? "aux_hangs" : "aux_crashes");
      } else if (hung && !opts.hang_is_violation) {
        total->exhaustive = false;
        total->note("shard " + std::to_string(L.shard) + " made no progress for " + std::to_string(static_cast<int>(opts.hang_s)) + "s at case [" + what + "]; killed (not counted as violation)");
      } else {
        total->violation(sig, (hung ? "no progress (hang) while executing: " : "worker died while executing: ") + what + "\n" + log.substr(0, 1500), ra,
                         opts.crash_key ? sig + " | " + opts.crash_key(what) : std::string());
      }
      if (cid >= 0 && restarts[L.shard] < opts.max_restarts) {
        restarts[L.shard]++;
        skips[L.shard].insert(cid);
        queue.push_back(L.shard);
      } else {
        total->exhaustive = false;
        if (opts.resume) total->merge(partial[L.shard]);
        total->note("shard " + std::to_string(L.shard) + " abandoned after repeated abnormal exits");
      }
    }
    if (!reaped) usleep(5000);
  }
  munmap(slots, sizeof(Slot) * opts.workers);
}

inline int finish(const Args& a, const Result& r) {
  if (!a.out.empty()) {
    std::ofstream f(a.out, std::ios::binary);
    f << r.to_json();
  } else {
    fputs(r.to_json().c_str(), stdout);
  }
  return r.nviol ? 1 : 0;
}

}  // namespace hz

#endif  // VERIF_HARNESS_H_
