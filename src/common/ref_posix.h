// Reference recogniser/evaluator for POSIX TZ rule strings, written from the
// grammar stated in property C16 / POSIX.1 XBD 8.3 as documented in
// time_zone_posix.h.  Recursive descent over a cursor; shares no code with
// cctz.  Rule evaluation is by definition ("last d-day of month" = step back
// from the month's last day), in 128 bits.
#ifndef VERIF_REF_POSIX_H_
#define VERIF_REF_POSIX_H_

#include <string>
#include <vector>

#include "ref_civil.h"

namespace ref {

struct PDate {
  char fmt = '?';  // 'J', 'N', 'M'
  int day = 0;     // J: 1..365, N: 0..365
  int month = 0, week = 0, weekday = 0;
  int time = 7200;  // seconds after 00:00 local
};

struct Posix {
  std::string std_abbr, dst_abbr;
  int std_off = 0;  // seconds EAST of UTC (POSIX sign already inverted)
  int dst_off = 0;
  bool has_dst = false;
  PDate start, end;
};

namespace posix_detail {

struct Cur {
  const std::string& s;
  size_t i;
  bool eof() const { return i >= s.size(); }
  // NUL bytes terminate the C string the implementation sees.
  char peek() const { return i < s.size() ? s[i] : '\0'; }
};

inline bool is_digit(char c) { return c >= '0' && c <= '9'; }

inline bool parse_uint(Cur& c, int lo, int hi, int* out) {
  size_t st = c.i;
  long long v = 0;
  bool big = false;
  while (is_digit(c.peek())) {
    v = v * 10 + (c.peek() - '0');
    if (v > 2147483647LL) big = true, v = 2147483647LL;
    ++c.i;
  }
  if (c.i == st || big) return false;
  if (v < lo || v > hi) return false;
  *out = static_cast<int>(v);
  return true;
}

inline bool parse_abbr(Cur& c, std::string* out) {
  if (c.peek() == '<') {
    size_t st = ++c.i;
    while (c.peek() != '>') {
      if (c.peek() == '\0') return false;
      ++c.i;
    }
    *out = c.s.substr(st, c.i - st);
    ++c.i;
    return true;
  }
  size_t st = c.i;
  while (c.peek() != '\0') {
    char ch = c.peek();
    if (ch == '+' || ch == '-' || ch == ',' || is_digit(ch)) break;
    ++c.i;
  }
  if (c.i - st < 3) return false;
  *out = c.s.substr(st, c.i - st);
  return true;
}

// [+-]hh[:mm[:ss]]; returns signed seconds (sign as written).
inline bool parse_hms(Cur& c, int max_hour, int* out) {
  int sign = 1;
  if (c.peek() == '+' || c.peek() == '-') {
    if (c.peek() == '-') sign = -1;
    ++c.i;
  }
  int h = 0, m = 0, s = 0;
  if (!parse_uint(c, 0, max_hour, &h)) return false;
  if (c.peek() == ':') {
    ++c.i;
    if (!parse_uint(c, 0, 59, &m)) return false;
    if (c.peek() == ':') {
      ++c.i;
      if (!parse_uint(c, 0, 59, &s)) return false;
    }
  }
  *out = sign * (h * 3600 + m * 60 + s);
  return true;
}

// ",date[/time]"
inline bool parse_rule(Cur& c, PDate* d) {
  if (c.peek() != ',') return false;
  ++c.i;
  if (c.peek() == 'M') {
    ++c.i;
    d->fmt = 'M';
    if (!parse_uint(c, 1, 12, &d->month)) return false;
    if (c.peek() != '.') return false;
    ++c.i;
    if (!parse_uint(c, 1, 5, &d->week)) return false;
    if (c.peek() != '.') return false;
    ++c.i;
    if (!parse_uint(c, 0, 6, &d->weekday)) return false;
  } else if (c.peek() == 'J') {
    ++c.i;
    d->fmt = 'J';
    if (!parse_uint(c, 1, 365, &d->day)) return false;
  } else {
    d->fmt = 'N';
    if (!parse_uint(c, 0, 365, &d->day)) return false;
  }
  d->time = 7200;
  if (c.peek() == '/') {
    ++c.i;
    if (!parse_hms(c, 167, &d->time)) return false;
  }
  return true;
}

}  // namespace posix_detail

// Returns true iff `spec` is a sentence of the grammar
//   std offset [ dst [offset] , date[/time] , date[/time] ]
// (A NUL byte ends the string, as for the C-string based implementation.)
inline bool parse_posix(const std::string& spec, Posix* out) {
  using namespace posix_detail;
  Posix p;
  Cur c{spec, 0};
  if (c.peek() == ':') return false;  // implementation-defined form: rejected
  if (!parse_abbr(c, &p.std_abbr)) return false;
  int v = 0;
  if (!parse_hms(c, 24, &v)) return false;
  p.std_off = -v;
  if (c.peek() == '\0') {
    *out = p;
    return true;
  }
  if (!parse_abbr(c, &p.dst_abbr)) return false;
  p.has_dst = true;
  p.dst_off = p.std_off + 3600;
  if (c.peek() != ',') {
    if (!parse_hms(c, 24, &v)) return false;
    p.dst_off = -v;
  }
  if (!parse_rule(c, &p.start)) return false;
  if (!parse_rule(c, &p.end)) return false;
  if (c.peek() != '\0') return false;
  *out = p;
  return true;
}

// Zero-based day-of-year on which the rule date falls in year y.
inline int rule_yday(const PDate& d, i128 y) {
  const bool leap = is_leap(y);
  switch (d.fmt) {
    case 'J':  // 1..365, Feb 29 never counted
      return (leap && d.day >= 60) ? d.day : d.day - 1;
    case 'N':
      return d.day;
    case 'M': {
      int before = 0;
      for (int m = 1; m < d.month; ++m) before += days_in_month(y, m);
      const i128 jan1 = days_from_civil(y, 1, 1);
      const int dim = days_in_month(y, d.month);
      // POSIX weekday: 0 = Sunday.  weekday_mon0: 0 = Monday.
      auto posix_wd = [&](int dom) {
        return (weekday_mon0(jan1 + before + dom - 1) + 1) % 7;
      };
      if (d.week == 5) {
        int dom = dim;
        while (posix_wd(dom) != d.weekday) --dom;
        return before + dom - 1;
      }
      int dom = 1;
      while (posix_wd(dom) != d.weekday) ++dom;
      dom += 7 * (d.week - 1);
      // weeks 1..4 always exist within the month (dom <= 28)
      return before + dom - 1;
    }
  }
  return 0;
}

// UTC instant of the year-y DST start (uses std offset) / end (dst offset).
inline i128 rule_start_utc(const Posix& p, i128 y) {
  return (days_from_civil(y, 1, 1) + rule_yday(p.start, y)) * 86400 +
         p.start.time - p.std_off;
}
inline i128 rule_end_utc(const Posix& p, i128 y) {
  return (days_from_civil(y, 1, 1) + rule_yday(p.end, y)) * 86400 +
         p.end.time - p.dst_off;
}

}  // namespace ref

#endif  // VERIF_REF_POSIX_H_
