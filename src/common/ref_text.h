// Reference renderer / matcher for cctz::format and cctz::parse, written from
// the documentation in time_zone.h (specifier list, "no normalization",
// whitespace rules, ":60", offsets applied in UTC, %s overrides) as a plain
// left-to-right tokenizer.  Library-defined specifiers are rendered/matched
// here from lookup()'s fields; every other run of the format is handed to the
// C library (strftime/strptime), as the property defers to it.
#ifndef VERIF_REF_TEXT_H_
#define VERIF_REF_TEXT_H_

#include <ctime>
#include <climits>
#include <cstring>
#include <string>
#include <vector>

#include "ref_civil.h"

namespace ref {

struct Fields {  // what lookup() reports for the instant being formatted
  Civil cs;
  int offset = 0;
  bool is_dst = false;
  std::string abbr;
  i128 unix_seconds = 0;
  long long fs = 0;  // femtoseconds [0, 1e15)
};

inline std::string pad2(int v) { char b[16]; snprintf(b, sizeof b, "%02d", v); return b; }

inline std::string offset_text(int off, const char* mode) {
  // mode: "" -> +hhmm ; ":" -> +hh:mm ; ":*" -> +hh:mm:ss ; ":*:" -> +hh[:mm[:ss]]
  char sign = '+';
  int a = off;
  if (a < 0) { a = -a; sign = '-'; }
  const int s = a % 60, m = (a / 60) % 60, h = a / 3600;
  const std::string md(mode);
  std::string o;
  if (md == "" || md == ":") {
    if (h == 0 && m == 0) sign = '+';  // seconds are not rendered: a sub-minute negative offset reads +00:00
    o = std::string(1, sign) + pad2(h) + (md == ":" ? ":" : "") + pad2(m);
  } else if (md == ":*") {
    o = std::string(1, sign) + pad2(h) + ":" + pad2(m) + ":" + pad2(s);
  } else {  // ":*:" minimal
    o = std::string(1, sign) + pad2(h);
    if (m != 0 || s != 0) o += ":" + pad2(m);
    if (s != 0) o += ":" + pad2(s);
  }
  return o;
}

inline std::tm tm_of(const Fields& f) {
  std::tm tm;
  memset(&tm, 0, sizeof tm);
  tm.tm_sec = f.cs.ss; tm.tm_min = f.cs.mm; tm.tm_hour = f.cs.hh; tm.tm_mday = f.cs.d; tm.tm_mon = f.cs.m - 1;
  i128 y = f.cs.y - 1900;
  tm.tm_year = y < INT_MIN ? INT_MIN : y > INT_MAX ? INT_MAX : static_cast<int>(y);
  const i128 dn = days_from_civil(f.cs.y, f.cs.m, f.cs.d);
  tm.tm_wday = (weekday_mon0(dn) + 1) % 7;  // Sunday = 0
  tm.tm_yday = static_cast<int>(dn - days_from_civil(f.cs.y, 1, 1));
  tm.tm_isdst = f.is_dst ? 1 : 0;
  return tm;
}

inline std::string frac15(long long fs) { char b[32]; snprintf(b, sizeof b, "%015lld", fs); return b; }

struct FormatRef {
  std::string out;
  bool wellformed = true;    // false: contains a '%' that starts no well-formed specifier (safety-only territory)
  bool dont_care = false;    // a C-library run whose output exceeds the documented 16x growth limit, or is empty
};

inline bool is_builtin(char c) { return c != '\0' && strchr("YmdeUuWwHMSzZs", c) != nullptr; }

// conversion characters glibc's strftime defines (after optional flags/width/E/O)
inline bool glibc_conv(char c) { return c != '\0' && strchr("aAbBcCdDeFgGhHIjklmMnprRsStTuUVwWxXyYzZ+%", c) != nullptr; }

inline void flush_run(const std::string& run, const std::tm& tm, FormatRef* r) {
  if (run.empty()) return;
  if (run.find('%') == std::string::npos) { r->out += run; return; }
  // is every '%' in the run the start of a complete glibc specifier?
  for (size_t i = 0; i < run.size(); ++i) {
    if (run[i] != '%') continue;
    size_t j = i + 1;
    while (j < run.size() && strchr("_-0^#", run[j])) ++j;
    size_t w0 = j;
    while (j < run.size() && run[j] >= '0' && run[j] <= '9') ++j;
    if (j - w0 > 2) r->dont_care = true;  // huge explicit widths: beyond FormatTM's growth limit
    if (j < run.size() && (run[j] == 'E' || run[j] == 'O')) ++j;
    if (j >= run.size() || !glibc_conv(run[j])) { r->wellformed = false; }
    i = j;
  }
  std::vector<char> buf(run.size() * 64 + 4096);
  size_t n = strftime(buf.data(), buf.size(), run.c_str(), &tm);
  if (n == 0 || n + 1 > run.size() * 16) r->dont_care = true;
  r->out.append(buf.data(), n);
}

// The reference renderer.
inline FormatRef format_ref(const std::string& fmt, const Fields& f) {
  FormatRef r;
  const std::tm tm = tm_of(f);
  const size_t n = fmt.size();
  if (fmt.find('\0') != std::string::npos) r.wellformed = false;  // NUL inside: C-string based pieces see a shorter string
  std::string run;  // pending text for the C library
  size_t i = 0;
  auto take = [&](const std::string& text, size_t consumed) { flush_run(run, tm, &r); run.clear(); r.out += text; i += consumed; };
  while (i < n) {
    if (fmt[i] != '%') { run += fmt[i++]; continue; }
    size_t j = i;
    while (j < n && fmt[j] == '%') ++j;
    const size_t k = j - i;
    // doubled percent signs
    for (size_t p = 0; p < k / 2; ++p) run += "%%";  // rendered as one '%' by the C library too
    i += (k / 2) * 2;
    if (k % 2 == 0) continue;
    // a single '%' at i, specifier character(s) follow at j
    if (j >= n) { r.wellformed = false; run += "%"; i = j; continue; }  // dangling '%'
    const char c = fmt[j];
    if (is_builtin(c)) {
      std::string t;
      switch (c) {
        case 'Y': t = to_string(f.cs.y); break;
        case 'm': t = pad2(f.cs.m); break;
        case 'd': t = pad2(f.cs.d); break;
        case 'e': t = pad2(f.cs.d); if (t[0] == '0') t[0] = ' '; break;
        case 'H': t = pad2(f.cs.hh); break;
        case 'M': t = pad2(f.cs.mm); break;
        case 'S': t = pad2(f.cs.ss); break;
        case 'U': t = pad2((tm.tm_yday + 7 - tm.tm_wday) / 7); break;
        case 'W': t = pad2((tm.tm_yday + 7 - ((tm.tm_wday + 6) % 7)) / 7); break;
        case 'u': t = std::to_string(tm.tm_wday ? tm.tm_wday : 7); break;
        case 'w': t = std::to_string(tm.tm_wday); break;
        case 'z': t = offset_text(f.offset, ""); break;
        case 'Z': t = f.abbr; break;
        case 's': t = to_string(f.unix_seconds); break;
      }
      take(t, 2);
      continue;
    }
    if (c == ':') {
      if (fmt.compare(j, 2, ":z") == 0 && j + 1 < n) { take(offset_text(f.offset, ":"), 3); continue; }
      if (fmt.compare(j, 3, "::z") == 0 && j + 2 < n) { take(offset_text(f.offset, ":*"), 4); continue; }
      if (fmt.compare(j, 4, ":::z") == 0 && j + 3 < n) { take(offset_text(f.offset, ":*:"), 5); continue; }
    }
    if (c == 'E' && j + 1 < n) {
      const char d = fmt[j + 1];
      if (d == 'T') { take("T", 3); continue; }
      if (d == 'z') { take(offset_text(f.offset, ":"), 3); continue; }
      if (d == '*' && j + 2 < n && fmt[j + 2] == 'z') { take(offset_text(f.offset, ":*"), 4); continue; }
      if (d == '*' && j + 2 < n && (fmt[j + 2] == 'S' || fmt[j + 2] == 'f')) {
        std::string digits = frac15(f.fs);
        while (!digits.empty() && digits.back() == '0') digits.pop_back();
        if (fmt[j + 2] == 'S') take(pad2(f.cs.ss) + (digits.empty() ? "" : "." + digits), 4);
        else take(digits.empty() ? "0" : digits, 4);
        continue;
      }
      if (d == '4' && j + 2 < n && fmt[j + 2] == 'Y') {
        // four-character year: sign included in the width
        std::string t;
        if (f.cs.y < 0) { std::string a = to_string(-f.cs.y); while (a.size() < 3) a = "0" + a; t = "-" + a; }
        else { t = to_string(f.cs.y); while (t.size() < 4) t = "0" + t; }
        take(t, 4);
        continue;
      }
      if (d >= '0' && d <= '9') {
        size_t q = j + 1;
        long long v = 0;
        while (q < n && fmt[q] >= '0' && fmt[q] <= '9' && v <= 100000) { v = v * 10 + (fmt[q] - '0'); ++q; }
        if (q < n && (fmt[q] == 'S' || fmt[q] == 'f') && v <= 1024 && !(q < n && fmt[q] >= '0' && fmt[q] <= '9')) {
          int nd = static_cast<int>(v > 18 ? 18 : v);
          std::string digits = frac15(f.fs);
          if (nd <= 15) digits = digits.substr(0, nd); else digits += std::string(nd - 15, '0');
          if (fmt[q] == 'S') take(pad2(f.cs.ss) + (nd ? "." + digits : ""), q + 1 - i);
          else take(digits, q + 1 - i);
          continue;
        }
      }
    }
    // not a library-defined specifier: the '%' and what follows go to the C library
    run += "%";
    i = j;
  }
  flush_run(run, tm, &r);
  return r;
}


// ---------------------------------------------------------------------------
// parse reference

struct ParseRef {
  bool ok = false;
  bool dont_care = false;  // uses behaviour the documentation leaves open
  i128 t = 0;
  long long fs = 0;
  std::string why;
};

namespace parse_detail {

inline bool is_space(char c) { return c == ' ' || c == '\t' || c == '\n' || c == '\v' || c == '\f' || c == '\r'; }
inline bool is_dig(char c) { return c >= '0' && c <= '9'; }

// A numeric field: optional '-', then digits; `width` > 0 limits the number of
// characters (sign included); at least one digit; "-0" is not a number here.
inline bool num(const std::string& in, size_t* p, int width, i128 lo, i128 hi, i128* out) {
  size_t i = *p;
  bool neg = false;
  int w = width;
  if (i < in.size() && in[i] == '-') {
    neg = true;
    if (width > 0 && --w == 0) return false;
    ++i;
  }
  size_t st = i;
  i128 v = 0;
  bool big = false;
  while (i < in.size() && is_dig(in[i])) {
    v = v * 10 + (in[i] - '0');
    if (v > (static_cast<i128>(1) << 100)) big = true, v = static_cast<i128>(1) << 100;
    ++i;
    if (width > 0 && --w == 0) break;
  }
  if (i == st || big) return false;
  if (neg && v == 0) return false;
  if (neg) v = -v;
  if (v < lo || v > hi) return false;
  *out = v;
  *p = i;
  return true;
}

// [+-]hh[sep?mm[sep?ss]] | Z | z
inline bool offset(const std::string& in, size_t* p, bool colon_ok, int* off) {
  size_t i = *p;
  if (i >= in.size()) return false;
  const char first = in[i++];
  if (first == 'Z' || first == 'z') { *off = 0; *p = i; return true; }
  if (first != '+' && first != '-') return false;
  auto two = [&](size_t at, int hi, int* v) {
    if (at + 2 > in.size() || !is_dig(in[at]) || !is_dig(in[at + 1])) return false;
    int x = (in[at] - '0') * 10 + (in[at + 1] - '0');
    if (x > hi) return false;
    *v = x;
    return true;
  };
  int h = 0, m = 0, s = 0;
  if (!two(i, 23, &h)) return false;
  i += 2;
  size_t q = i;
  if (colon_ok && q < in.size() && in[q] == ':') ++q;
  if (two(q, 59, &m)) {
    i = q + 2;
    q = i;
    if (colon_ok && q < in.size() && in[q] == ':') ++q;
    if (two(q, 59, &s)) i = q + 2;
  }
  *off = (h * 60 + m) * 60 + s;
  if (first == '-') *off = -*off;
  *p = i;
  return true;
}

inline bool subseconds(const std::string& in, size_t* p, long long* fs) {
  size_t i = *p;
  long long v = 0;
  int nd = 0;
  size_t st = i;
  while (i < in.size() && is_dig(in[i])) { if (nd < 15) { v = v * 10 + (in[i] - '0'); ++nd; } ++i; }  // digits beyond femtoseconds are dropped
  if (i == st) return false;
  while (nd < 15) { v *= 10; ++nd; }
  *fs = v;
  *p = i;
  return true;
}

}  // namespace parse_detail

// resolve(civil seconds as local i128) -> instant (the zone's 'pre' reading), unclamped
typedef i128 (*ResolveFn)(void* ctx, i128 local_secs);

inline ParseRef parse_ref(const std::string& fmt, const std::string& input, ResolveFn resolve, void* ctx) {
  using namespace parse_detail;
  ParseRef r;
  if (fmt.find('\0') != std::string::npos || input.find('\0') != std::string::npos) { r.dont_care = true; }
  size_t p = 0, f = 0;
  const std::string& in = input;
  while (p < in.size() && is_space(in[p])) ++p;
  i128 year = 1970; bool saw_year = false;
  int mon = 1, mday = 1, hour = 0, min = 0, sec = 0, wday = 4;
  bool twelve = false, afternoon = false;
  int tm_year = 70;  // what a delegated %y / %C / %D ... leaves behind; used only when no %Y / %E4Y was given
  int week = -1; bool week_monday = false;
  long long fs = 0;
  bool saw_off = false; int off = 0;
  bool saw_s = false; i128 sval = 0;
  std::tm tm;
  memset(&tm, 0, sizeof tm);
  bool used_c = false;
  auto fail = [&](const char* w) { r.ok = false; r.why = w; return r; };
  while (f < fmt.size()) {
    const char fc = fmt[f];
    if (is_space(fc)) {
      while (p < in.size() && is_space(in[p])) ++p;
      while (f < fmt.size() && is_space(fmt[f])) ++f;
      continue;
    }
    if (fc != '%') {
      if (p < in.size() && in[p] == fc) { ++p; ++f; continue; }
      return fail("literal mismatch");
    }
    if (f + 1 >= fmt.size()) return fail("dangling %");
    const char c = fmt[f + 1];
    i128 v = 0;
    switch (c) {
      case 'Y': if (!num(in, &p, 0, static_cast<i128>(INT64_MIN), static_cast<i128>(INT64_MAX), &v)) return fail("%Y"); year = v; saw_year = true; f += 2; continue;
      case 'm': if (!num(in, &p, 2, 1, 12, &v)) return fail("%m"); mon = static_cast<int>(v); week = -1; f += 2; continue;
      case 'd': case 'e': if (!num(in, &p, 2, 1, 31, &v)) return fail("%d"); mday = static_cast<int>(v); week = -1; f += 2; continue;
      case 'U': if (!num(in, &p, 0, 0, 53, &v)) return fail("%U"); week = static_cast<int>(v); week_monday = false; f += 2; continue;
      case 'W': if (!num(in, &p, 0, 0, 53, &v)) return fail("%W"); week = static_cast<int>(v); week_monday = true; f += 2; continue;
      case 'u': if (!num(in, &p, 0, 1, 7, &v)) return fail("%u"); wday = static_cast<int>(v) % 7; f += 2; continue;
      case 'w': if (!num(in, &p, 0, 0, 6, &v)) return fail("%w"); wday = static_cast<int>(v); f += 2; continue;
      case 'H': if (!num(in, &p, 2, 0, 23, &v)) return fail("%H"); hour = static_cast<int>(v); twelve = false; f += 2; continue;
      case 'M': if (!num(in, &p, 2, 0, 59, &v)) return fail("%M"); min = static_cast<int>(v); f += 2; continue;
      case 'S': if (!num(in, &p, 2, 0, 60, &v)) return fail("%S"); sec = static_cast<int>(v); f += 2; continue;
      case 'z': if (!offset(in, &p, false, &off)) return fail("%z"); saw_off = true; f += 2; continue;
      case 'Z': { size_t st = p; while (p < in.size() && !is_space(in[p])) ++p; if (p == st) return fail("%Z"); f += 2; continue; }
      case 's': if (!num(in, &p, 0, static_cast<i128>(INT64_MIN), static_cast<i128>(INT64_MAX), &v)) return fail("%s"); sval = v; saw_s = true; f += 2; continue;
      case '%': if (p < in.size() && in[p] == '%') { ++p; f += 2; continue; } return fail("%%");
      case ':': {
        size_t q = f + 2;
        int colons = 1;
        while (q < fmt.size() && fmt[q] == ':' && colons < 3) { ++q; ++colons; }
        if (q < fmt.size() && fmt[q] == 'z') { if (!offset(in, &p, true, &off)) return fail("%:z"); saw_off = true; f = q + 1; continue; }
        break;
      }
      case 'E': {
        const std::string rest = fmt.substr(f + 2, 3);
        if (!rest.empty() && rest[0] == 'T') { if (p < in.size() && (in[p] == 'T' || in[p] == 't')) { ++p; f += 3; continue; } return fail("%ET"); }
        if (!rest.empty() && rest[0] == 'z') { if (!offset(in, &p, true, &off)) return fail("%Ez"); saw_off = true; f += 3; continue; }
        if (rest.compare(0, 2, "*z") == 0) { if (!offset(in, &p, true, &off)) return fail("%E*z"); saw_off = true; f += 4; continue; }
        size_t q = f + 2;
        bool star = false;
        if (q < fmt.size() && fmt[q] == '*') { star = true; ++q; }
        else { size_t d0 = q; i128 nn = 0; while (q < fmt.size() && is_dig(fmt[q]) && nn <= 100000) { nn = nn * 10 + (fmt[q] - '0'); ++q; } if (q == d0 || nn > 1024) q = std::string::npos; }
        if (q != std::string::npos && q < fmt.size() && fmt[q] == 'S' && !(rest.compare(0, 2, "4Y") == 0)) {
          if (!num(in, &p, 2, 0, 60, &v)) return fail("%E#S");
          sec = static_cast<int>(v);
          if (p < in.size() && in[p] == '.') { ++p; if (!subseconds(in, &p, &fs)) return fail("%E#S fraction"); }
          f = q + 1;
          continue;
        }
        if (q != std::string::npos && q < fmt.size() && fmt[q] == 'f') {
          if (p < in.size() && is_dig(in[p])) subseconds(in, &p, &fs);
          f = q + 1;
          continue;
        }
        (void)star;
        if (rest.compare(0, 2, "4Y") == 0) {
          size_t st = p;
          if (!num(in, &p, 4, -999, 9999, &v) || p - st != 4) return fail("%E4Y");
          year = v; saw_year = true; f += 4;
          continue;
        }
        break;
      }
      default: break;
    }
    // Everything else is delegated to the C library, one specifier at a time.
    {
      size_t q = f + 1;
      if (q < fmt.size() && (fmt[q] == 'E' || fmt[q] == 'O')) ++q;
      if (q >= fmt.size()) return fail("dangling modifier");
      const std::string spec = fmt.substr(f, q + 1 - f);
      const char conv = fmt[q];
      if (!strchr("aAbBhpIjlyCDFTRrcxXntgGVHMSdme", conv)) { r.dont_care = true; }
      used_c = true;
      std::tm t2;
      memset(&t2, 0, sizeof t2);
      t2.tm_mon = mon - 1; t2.tm_mday = mday; t2.tm_hour = hour; t2.tm_min = min; t2.tm_sec = sec; t2.tm_wday = wday; t2.tm_year = tm_year;
      const char* res = strptime(in.c_str() + p, spec.c_str(), &t2);
      if (res == nullptr) return fail("strptime");
      const size_t np = res - in.c_str();
      if (conv == 'p') { std::string tok = in.substr(p, np - p); size_t a = 0; while (a < tok.size() && is_space(tok[a])) ++a; afternoon = (tok.size() >= a + 2 && (tok[a] == 'P' || tok[a] == 'p')); }
      // which clock the LAST hour-bearing specifier used decides whether a parsed %p applies (time_zone.h: the
      // fields are combined after the whole format has been matched)
      if (conv == 'I' || conv == 'l' || conv == 'r') twelve = true;
      if (conv == 'H' || conv == 'T' || conv == 'R' || conv == 'X' || conv == 'c') twelve = false;
      // The C library changes only the fields its specifier parses or derives (t2 was pre-filled with the current
      // values, exactly the broken-down time the library under test hands to the same function), so every field is
      // taken back: the statement defers to the C library for these specifiers.
      hour = t2.tm_hour; min = t2.tm_min; sec = t2.tm_sec;
      mon = t2.tm_mon + 1; mday = t2.tm_mday; wday = t2.tm_wday; tm_year = t2.tm_year;
      if (mon < 1 || mon > 12 || mday < 1 || mday > 31 || hour < 0 || hour > 23 || min < 0 || min > 59 || sec < 0 || sec > 61 || wday < 0 || wday > 6) r.dont_care = true;
      p = np;
      f = q + 1;
    }
  }
  (void)tm; (void)used_c;
  if (twelve && afternoon && hour < 12) hour += 12;
  while (p < in.size() && is_space(in[p])) ++p;
  if (p != in.size()) return fail("trailing data");
  if (saw_s) { r.ok = true; r.t = sval; r.fs = 0; return r; }
  if (sec > 60) r.dont_care = true;
  if (sec == 60) { sec = 59; off -= 1; fs = 0; }
  if (!saw_year) year = static_cast<i128>(tm_year) + 1900;
  if (week != -1) {
    const i128 y400 = year % 400;  // the implementation documents no range here: any year
    (void)y400;
    const i128 jan1 = days_from_civil(year, 1, 1);
    const int jan1_wd = (weekday_mon0(jan1) + 1) % 7;  // Sunday = 0
    const int ws = week_monday ? 1 : 0;
    const int k = (jan1_wd - ws + 7) % 7;
    const i128 week0 = jan1 - (k == 0 ? 7 : k);
    const i128 day = week0 + ((wday - ws + 7) % 7) + 7 * static_cast<i128>(week);
    i128 yy; int mm2, dd2;
    civil_from_days(day, &yy, &mm2, &dd2);
    if (yy < static_cast<i128>(INT64_MIN) || yy > static_cast<i128>(INT64_MAX)) return fail("week year out of range");
    year = yy; mon = mm2; mday = dd2;
  }
  if (mday > days_in_month(year, mon)) return fail("no such day");
  const i128 local = secs_from_civil(Civil{year, mon, mday, hour, min, sec});
  const i128 cmax = secs_from_civil(Civil{static_cast<i128>(INT64_MAX), 12, 31, 23, 59, 59});
  const i128 cmin = secs_from_civil(Civil{static_cast<i128>(INT64_MIN), 1, 1, 0, 0, 0});
  const i128 shifted = local - off;
  if (shifted > cmax || shifted < cmin) return fail("civil overflow");
  i128 t;
  if (saw_off) t = shifted;            // fields read in UTC, then shifted by the offset
  else t = resolve(ctx, shifted);      // (":60" roll-over included in `shifted`)
  if (t > static_cast<i128>(INT64_MAX) || t < static_cast<i128>(INT64_MIN)) return fail("instant out of range");
  r.ok = true;
  r.t = t;
  r.fs = fs;
  return r;
}

}  // namespace ref

#endif  // VERIF_REF_TEXT_H_
