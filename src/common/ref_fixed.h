// Closed-form reference for fixed-offset zone names/abbreviations (C15),
// written from the statement: 'Fixed/UTC+-hh:mm:ss'; abbreviation = sign and
// two-digit hours, followed by minutes, and by seconds, only as far as they
// are non-zero.  Zero and |offset| > 24h mean UTC.
#ifndef VERIF_REF_FIXED_H_
#define VERIF_REF_FIXED_H_

#include <cstdio>
#include <string>

namespace ref {

inline bool fixed_is_utc(long long off) { return off == 0 || off < -86400 || off > 86400; }

inline std::string fixed_name(long long off) {
  if (fixed_is_utc(off)) return "UTC";
  long long a = off < 0 ? -off : off;
  char b[40];
  snprintf(b, sizeof b, "Fixed/UTC%c%02lld:%02lld:%02lld", off < 0 ? '-' : '+', a / 3600, (a / 60) % 60, a % 60);
  return b;
}

inline std::string fixed_abbr(long long off) {
  if (fixed_is_utc(off)) return "UTC";
  long long a = off < 0 ? -off : off;
  char b[40];
  int h = static_cast<int>(a / 3600), m = static_cast<int>((a / 60) % 60), s = static_cast<int>(a % 60);
  if (s) snprintf(b, sizeof b, "%c%02d%02d%02d", off < 0 ? '-' : '+', h, m, s);
  else if (m) snprintf(b, sizeof b, "%c%02d%02d", off < 0 ? '-' : '+', h, m);
  else snprintf(b, sizeof b, "%c%02d", off < 0 ? '-' : '+', h);
  return b;
}

// Is `s` a fixed-offset name, and if so which offset?  Exactly 'UTC', 'UTC0',
// or 'Fixed/UTC' sign dd ':' dd ':' dd with ASCII digits and a total <= 24h.
inline bool fixed_from_name(const std::string& s, long long* off) {
  if (s == "UTC" || s == "UTC0") { *off = 0; return true; }
  if (s.size() != 18) return false;
  if (s.compare(0, 9, "Fixed/UTC") != 0) return false;
  if (s[9] != '+' && s[9] != '-') return false;
  if (s[12] != ':' || s[15] != ':') return false;
  const int p[6] = {10, 11, 13, 14, 16, 17};
  int d[6];
  for (int i = 0; i < 6; ++i) {
    char c = s[p[i]];
    if (c < '0' || c > '9') return false;
    d[i] = c - '0';
  }
  long long tot = (d[0] * 10 + d[1]) * 3600LL + (d[2] * 10 + d[3]) * 60 + (d[4] * 10 + d[5]);
  if (tot > 86400) return false;
  *off = s[9] == '-' ? -tot : tot;
  return true;
}

}  // namespace ref

#endif  // VERIF_REF_FIXED_H_
