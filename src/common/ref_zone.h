// Reference TZif reader (RFC 9636 layout, own big-endian decoding) and the
// "mathematical timeline" of a zone: type 0 before the first transition, the
// file's transitions, then the footer rule evaluated per year with NO 400-year
// folding and NO sentinels.  All arithmetic in 128 bits; clamping to the
// time_point<seconds> range is done by the caller at the very end.
#ifndef VERIF_REF_ZONE_H_
#define VERIF_REF_ZONE_H_

#include <algorithm>
#include <map>
#include <set>
#include <string>
#include <vector>

#include "ref_civil.h"
#include "ref_posix.h"

namespace ref {

struct RType {
  int off = 0;
  bool dst = false;
  std::string abbr;
  bool same(const RType& o) const {
    return off == o.off && dst == o.dst && abbr == o.abbr;
  }
};

struct RTrans {
  i128 t;
  RType before, after;
  bool from_rule;
};

struct TzifRaw {
  bool ok = false;
  std::string why;
  int version = 0;  // 1..4 (numeric), from the first header
  std::vector<long long> times;
  std::vector<int> idx;
  struct TT {
    long long utoff;
    int isdst;
    int abbrind;
  };
  std::vector<TT> tts;
  std::string chars;
  size_t leapcnt = 0, isstdcnt = 0, isutcnt = 0;
  bool has_footer = false;
  std::string footer;
  size_t consumed = 0;
};

namespace tzif_detail {
inline unsigned long long be(const std::string& b, size_t pos, int n) {
  unsigned long long v = 0;
  for (int i = 0; i < n; ++i)
    v = (v << 8) | static_cast<unsigned char>(b[pos + i]);
  return v;
}
inline long long sbe(const std::string& b, size_t pos, int n) {
  unsigned long long v = be(b, pos, n);
  if (n == 4) return static_cast<long long>(static_cast<int>(static_cast<unsigned>(v)));
  return static_cast<long long>(v);
}
struct Hdr {
  int version;
  size_t isutcnt, isstdcnt, leapcnt, timecnt, typecnt, charcnt;
};
inline bool read_hdr(const std::string& b, size_t pos, Hdr* h, bool lenient = false) {
  if (b.size() < pos + 44) return false;
  if (b.compare(pos, 4, "TZif") != 0) return false;
  unsigned char v = static_cast<unsigned char>(b[pos + 4]);
  h->version = (v == 0) ? 1 : (v >= '2' && v <= '9') ? v - '0' : (lenient ? 2 : -1);
  size_t* f[6] = {&h->isutcnt, &h->isstdcnt, &h->leapcnt,
                  &h->timecnt, &h->typecnt,  &h->charcnt};
  for (int i = 0; i < 6; ++i) {
    unsigned long long c = be(b, pos + 20 + 4 * i, 4);
    if (c > 0x7fffffffULL) return false;
    *f[i] = static_cast<size_t>(c);
  }
  return true;
}
inline size_t block_len(const Hdr& h, int tl) {
  return h.timecnt * tl + h.timecnt + h.typecnt * 6 + h.charcnt +
         h.leapcnt * (tl + 4) + h.isstdcnt + h.isutcnt;
}
}  // namespace tzif_detail

// Structural read only (what the bytes say); no semantic validation.
// lenient: any non-NUL version byte means "version 2+" (what cctz does); used only to DESCRIBE inputs.
inline TzifRaw read_tzif(const std::string& b, bool lenient = false) {
  using namespace tzif_detail;
  TzifRaw r;
  Hdr h;
  if (!read_hdr(b, 0, &h, lenient)) {
    r.why = "bad first header";
    return r;
  }
  if (h.version < 0) {
    r.why = "bad version byte";
    return r;
  }
  r.version = h.version;
  size_t pos = 44;
  int tl = 4;
  if (h.version >= 2) {
    size_t skip = block_len(h, 4);
    if (b.size() < pos + skip) {
      r.why = "short v1 block";
      return r;
    }
    pos += skip;
    if (!read_hdr(b, pos, &h, lenient) || h.version < 2) {
      r.why = "bad second header";
      return r;
    }
    pos += 44;
    tl = 8;
  }
  if (b.size() < pos + block_len(h, tl)) {
    r.why = "short data block";
    return r;
  }
  for (size_t i = 0; i < h.timecnt; ++i) r.times.push_back(sbe(b, pos + i * tl, tl));
  pos += h.timecnt * tl;
  for (size_t i = 0; i < h.timecnt; ++i)
    r.idx.push_back(static_cast<unsigned char>(b[pos + i]));
  pos += h.timecnt;
  for (size_t i = 0; i < h.typecnt; ++i) {
    TzifRaw::TT t;
    t.utoff = sbe(b, pos, 4);
    t.isdst = static_cast<unsigned char>(b[pos + 4]);
    t.abbrind = static_cast<unsigned char>(b[pos + 5]);
    r.tts.push_back(t);
    pos += 6;
  }
  r.chars = b.substr(pos, h.charcnt);
  pos += h.charcnt;
  pos += h.leapcnt * (tl + 4) + h.isstdcnt + h.isutcnt;
  r.leapcnt = h.leapcnt;
  r.isstdcnt = h.isstdcnt;
  r.isutcnt = h.isutcnt;
  if (tl == 8) {
    if (pos >= b.size() || b[pos] != '\n') {
      r.why = "missing footer newline";
      return r;
    }
    size_t e = b.find('\n', pos + 1);
    if (e == std::string::npos) {
      r.why = "unterminated footer";
      return r;
    }
    r.has_footer = true;
    r.footer = b.substr(pos + 1, e - pos - 1);
    pos = e + 1;
  }
  r.consumed = pos;
  r.ok = true;
  return r;
}

struct RZone {
  bool ok = false;  // structurally readable AND semantically a zic-style file
  std::string why;
  TzifRaw raw;
  std::vector<i128> times;
  std::vector<int> idx;
  std::vector<RType> types;
  bool has_rule = false;   // footer with a DST part
  bool has_std_footer = false;
  Posix px;
  RType rule_std, rule_dst;
  // Old-zic files whose type 0 is a DST type referenced by a transition do not
  // designate the before-first type unambiguously; a harness may pin it (from
  // what lookup() reports there) and check everything else against that.
  bool has_bf = false;
  RType bf;
  const RType& first_type() const { return has_bf ? bf : types[0]; }

  // --- construction -------------------------------------------------------
  static RZone from_bytes(const std::string& bytes) {
    RZone z;
    z.raw = read_tzif(bytes);
    if (!z.raw.ok) {
      z.why = z.raw.why;
      return z;
    }
    const TzifRaw& r = z.raw;
    if (r.tts.empty()) {
      z.why = "no types";
      return z;
    }
    if (r.leapcnt != 0) {
      z.why = "leap seconds";
      return z;
    }
    for (size_t i = 0; i < r.tts.size(); ++i) {
      RType t;
      if (r.tts[i].utoff <= -86400 || r.tts[i].utoff >= 86400) {
        z.why = "offset out of range";
        return z;
      }
      t.off = static_cast<int>(r.tts[i].utoff);
      t.dst = r.tts[i].isdst != 0;
      if (static_cast<size_t>(r.tts[i].abbrind) >= r.chars.size()) {
        z.why = "abbr index";
        return z;
      }
      size_t e = r.chars.find('\0', r.tts[i].abbrind);
      if (e == std::string::npos) {
        z.why = "abbr unterminated";
        return z;
      }
      t.abbr = r.chars.substr(r.tts[i].abbrind, e - r.tts[i].abbrind);
      z.types.push_back(t);
    }
    for (size_t i = 0; i < r.times.size(); ++i) {
      if (i && r.times[i] <= r.times[i - 1]) {
        z.why = "times not increasing";
        return z;
      }
      if (static_cast<size_t>(r.idx[i]) >= r.tts.size()) {
        z.why = "type index";
        return z;
      }
      z.times.push_back(r.times[i]);
      z.idx.push_back(r.idx[i]);
    }
    if (r.has_footer && !r.footer.empty()) {
      if (!parse_posix(r.footer, &z.px)) {
        z.why = "footer rejected by reference grammar";
        return z;
      }
      z.rule_std = RType{z.px.std_off, false, z.px.std_abbr};
      if (z.px.has_dst) {
        z.has_rule = true;
        z.rule_dst = RType{z.px.dst_off, true, z.px.dst_abbr};
      } else {
        z.has_std_footer = true;
      }
    }
    z.ok = true;
    return z;
  }

  // --- the timeline -------------------------------------------------------
  // (end, start) instants of the rule in year y; memoised (pure function of px and y).
  mutable std::map<i128, std::pair<i128, i128>> rule_cache_;
  const std::pair<i128, i128>& rule_times(i128 y) const {
    auto it = rule_cache_.find(y);
    if (it != rule_cache_.end()) return it->second;
    if (rule_cache_.size() > 4096) rule_cache_.clear();
    return rule_cache_.emplace(y, std::make_pair(rule_end_utc(px, y), rule_start_utc(px, y))).first->second;
  }
  // Type prescribed by the footer rule at instant t.
  RType rule_at(i128 t) const {
    const i128 y0 = civil_from_secs(t + px.std_off).y;
    i128 best_t = 0;
    int best_kind = -1;  // 0 = std starts, 1 = dst starts
    for (i128 y = y0 - 1; y <= y0 + 1; ++y) {
      const std::pair<i128, i128>& rt = rule_times(y);
      const i128 cand[2] = {rt.first, rt.second};
      for (int k = 0; k < 2; ++k) {
        if (cand[k] > t) continue;
        if (best_kind < 0 || cand[k] > best_t ||
            (cand[k] == best_t && k > best_kind)) {
          best_t = cand[k];
          best_kind = k;
        }
      }
    }
    // y0-1 always contributes a transition <= t for any sane rule.
    return best_kind == 1 ? rule_dst : rule_std;
  }

  RType at(i128 t) const {
    if (!times.empty() && t < times.front()) return first_type();
    if (times.empty() || t >= times.back()) {
      if (has_rule) return rule_at(t);
      if (times.empty()) return first_type();
      return types[idx.back()];
    }
    size_t lo = 0, hi = times.size();  // last i with times[i] <= t
    while (hi - lo > 1) {
      size_t mid = (lo + hi) / 2;
      if (times[mid] <= t) lo = mid; else hi = mid;
    }
    return types[idx[lo]];
  }

  // All transitions (file, then rule-generated strictly after the last file
  // transition) with a <= t <= b, ascending.  Zero-length rule periods (both
  // rule transitions at the same instant, "all-year DST") produce no entry.
  void transitions_in(i128 a, i128 b, std::vector<RTrans>* out) const {
    for (size_t i = 0; i < times.size(); ++i) {
      if (times[i] < a) continue;
      if (times[i] > b) break;
      RTrans tr;
      tr.t = times[i];
      tr.before = (i == 0) ? first_type() : types[idx[i - 1]];
      tr.after = types[idx[i]];
      tr.from_rule = false;
      out->push_back(tr);
    }
    if (!has_rule) return;
    i128 lo = a;
    if (!times.empty() && lo <= times.back()) lo = times.back() + 1;
    if (lo > b) return;
    const i128 ya = civil_from_secs(lo + px.std_off).y - 1;
    const i128 yb = civil_from_secs(b + px.std_off).y + 1;
    std::vector<std::pair<i128, int>> ev;
    for (i128 y = ya; y <= yb; ++y) {
      ev.push_back({rule_end_utc(px, y), 0});
      ev.push_back({rule_start_utc(px, y), 1});
    }
    std::sort(ev.begin(), ev.end());
    for (size_t i = 0; i < ev.size(); ++i) {
      if (ev[i].first < lo || ev[i].first > b) continue;
      // coinciding pair => zero-length period => not a change at all
      if (i + 1 < ev.size() && ev[i + 1].first == ev[i].first) { ++i; continue; }
      RTrans tr;
      tr.t = ev[i].first;
      tr.before = at(tr.t - 1);
      tr.after = ev[i].second ? rule_dst : rule_std;
      tr.from_rule = true;
      out->push_back(tr);
    }
  }

  std::set<int> offsets() const {
    std::set<int> s;
    for (const auto& t : types) s.insert(t.off);
    if (has_rule) {
      s.insert(rule_std.off);
      s.insert(rule_dst.off);
    }
    return s;
  }

  struct Of {
    int n = 0;        // number of instants displaying cs (0,1,2; >2 = ill-formed here)
    i128 pre = 0, trans = 0, post = 0;
    bool found_trans = false;
  };
  // cs given as local seconds since 1970-01-01T00:00:00 (i.e. secs_from_civil).
  Of of(i128 cs, const std::set<int>& offs) const {
    Of r;
    std::vector<i128> hits;
    for (int o : offs) {
      i128 t = cs - o;
      if (at(t).off == o) hits.push_back(t);
    }
    std::sort(hits.begin(), hits.end());
    hits.erase(std::unique(hits.begin(), hits.end()), hits.end());
    r.n = static_cast<int>(hits.size());
    if (r.n == 1) {
      r.pre = r.trans = r.post = hits[0];
      r.found_trans = true;
      return r;
    }
    const i128 tmin = cs - *offs.rbegin() - 1, tmax = cs - *offs.begin() + 1;
    std::vector<RTrans> trs;
    transitions_in(tmin, tmax, &trs);
    for (const auto& tr : trs) {
      const int ob = tr.before.off, oa = tr.after.off;
      if (r.n == 0 && oa > ob && tr.t + ob <= cs && cs < tr.t + oa) {
        r.pre = cs - ob; r.trans = tr.t; r.post = cs - oa; r.found_trans = true;
        break;
      }
      if (r.n == 2 && oa < ob && tr.t + oa <= cs && cs < tr.t + ob) {
        r.pre = cs - ob; r.trans = tr.t; r.post = cs - oa; r.found_trans = true;
        break;
      }
    }
    return r;
  }
};

}  // namespace ref

#endif  // VERIF_REF_ZONE_H_
