// Glue to the implementation under test: an in-memory ZoneInfoSource served by
// a replaced cctz_extension::zone_info_source_factory (public extension point;
// nothing in /repo is edited), plus helpers to read files.
#ifndef VERIF_IMPL_GLUE_H_
#define VERIF_IMPL_GLUE_H_

#include <dirent.h>
#include <sys/stat.h>

#include <algorithm>
#include <cstring>
#include <fstream>
#include <functional>
#include <map>
#include <memory>
#include <sstream>
#include <string>
#include <vector>

#include "cctz/civil_time.h"
#include "cctz/time_zone.h"
#include "cctz/zone_info_source.h"

namespace glue {

struct MemSource : public cctz::ZoneInfoSource {
  explicit MemSource(const std::string& b) : bytes(b), pos(0) {}
  std::size_t Read(void* ptr, std::size_t size) override {
    size = std::min(size, bytes.size() - pos);
    if (size) memcpy(ptr, bytes.data() + pos, size);
    pos += size;
    return size;
  }
  int Skip(std::size_t offset) override {
    offset = std::min(offset, bytes.size() - pos);
    pos += offset;
    return 0;
  }
  std::string bytes;
  std::size_t pos;
};

struct Registry {
  std::map<std::string, std::string> zones;  // name -> bytes
  std::map<std::string, int> calls;          // factory invocations per name
  bool fallback_to_files = false;
};
inline Registry& registry() {
  static Registry* r = new Registry;
  return *r;
}

inline std::unique_ptr<cctz::ZoneInfoSource> Factory(
    const std::string& name,
    const std::function<std::unique_ptr<cctz::ZoneInfoSource>(
        const std::string& name)>& fallback) {
  Registry& r = registry();
  r.calls[name]++;
  auto it = r.zones.find(name);
  if (it != r.zones.end())
    return std::unique_ptr<cctz::ZoneInfoSource>(new MemSource(it->second));
  if (r.fallback_to_files) return fallback(name);
  return nullptr;
}

inline void install_factory() {
  cctz_extension::zone_info_source_factory = Factory;
}

// Register bytes under a fresh, never-used name and load them.
inline bool load_bytes(const std::string& name, const std::string& bytes,
                       cctz::time_zone* tz) {
  registry().zones[name] = bytes;
  return cctz::load_time_zone(name, tz);
}

inline std::string read_file(const std::string& path) {
  std::ifstream f(path, std::ios::binary);
  std::ostringstream ss;
  ss << f.rdbuf();
  return ss.str();
}

inline void list_files(const std::string& dir, const std::string& rel,
                       std::vector<std::string>* out) {
  DIR* d = opendir((dir + "/" + rel).c_str());
  if (!d) return;
  std::vector<std::string> names;
  while (dirent* e = readdir(d)) {
    std::string n = e->d_name;
    if (n == "." || n == "..") continue;
    names.push_back(n);
  }
  closedir(d);
  std::sort(names.begin(), names.end());
  for (const auto& n : names) {
    std::string r = rel.empty() ? n : rel + "/" + n;
    struct stat st;
    if (stat((dir + "/" + r).c_str(), &st) != 0) continue;
    if (S_ISDIR(st.st_mode)) list_files(dir, r, out);
    else if (S_ISREG(st.st_mode)) out->push_back(r);
  }
}

// All TZif files below dir (relative names, sorted).
inline std::vector<std::string> shipped_zone_names(const std::string& dir) {
  std::vector<std::string> all, out;
  list_files(dir, "", &all);
  for (const auto& n : all) {
    std::string b = read_file(dir + "/" + n);
    if (b.size() >= 44 && b.compare(0, 4, "TZif") == 0) out.push_back(n);
  }
  return out;
}

inline long long unix_of(const cctz::time_point<cctz::seconds>& tp) {
  return tp.time_since_epoch().count();
}
inline cctz::time_point<cctz::seconds> tp_of(long long s) {
  return cctz::time_point<cctz::seconds>(cctz::seconds(s));
}

}  // namespace glue

#endif  // VERIF_IMPL_GLUE_H_
