// Reference model of the proleptic Gregorian calendar in 128-bit arithmetic.
// Written from the calendar's definition, deliberately NOT using cctz's
// (Hinnant-style era/doe) formulae: days are counted by "365 per year plus
// leap days so far", the inverse by estimate-and-correct.  128 bits make any
// overflow-avoidance tricks unnecessary, so none are present.
#ifndef VERIF_REF_CIVIL_H_
#define VERIF_REF_CIVIL_H_

#include <cstdint>
#include <cstdio>
#include <cstdlib>
#include <string>

namespace ref {

typedef __int128 i128;

inline i128 floordiv(i128 a, i128 b) {  // b > 0
  i128 q = a / b;
  if ((a % b) != 0 && (a < 0)) --q;
  return q;
}
inline i128 floormod(i128 a, i128 b) { return a - floordiv(a, b) * b; }

inline std::string to_string(i128 v) {
  if (v == 0) return "0";
  bool neg = v < 0;
  std::string s;
  // careful with the most negative value: work with negative remainders
  while (v != 0) {
    int d = static_cast<int>(v % 10);
    if (d < 0) d = -d;
    s.insert(s.begin(), static_cast<char>('0' + d));
    v /= 10;
  }
  if (neg) s.insert(s.begin(), '-');
  return s;
}

inline bool is_leap(i128 y) {
  return floormod(y, 4) == 0 && (floormod(y, 100) != 0 || floormod(y, 400) == 0);
}
inline int days_in_month(i128 y, int m) {
  static const int k[13] = {0, 31, 28, 31, 30, 31, 30, 31, 31, 30, 31, 30, 31};
  return k[m] + ((m == 2 && is_leap(y)) ? 1 : 0);
}
inline int days_in_year(i128 y) { return is_leap(y) ? 366 : 365; }

// Number of days from 0001-01-01 to Y-01-01 (may be negative).
inline i128 days_before_year(i128 y) {
  const i128 p = y - 1;
  return p * 365 + floordiv(p, 4) - floordiv(p, 100) + floordiv(p, 400);
}
// 1970-01-01 relative day number of a *valid* date.
inline i128 days_from_civil(i128 y, int m, int d) {
  i128 n = days_before_year(y) - days_before_year(1970);
  for (int i = 1; i < m; ++i) n += days_in_month(y, i);
  return n + (d - 1);
}

struct Civil {
  i128 y;
  int m, d, hh, mm, ss;
  bool operator==(const Civil& o) const {
    return y == o.y && m == o.m && d == o.d && hh == o.hh && mm == o.mm &&
           ss == o.ss;
  }
  bool operator!=(const Civil& o) const { return !(*this == o); }
  bool operator<(const Civil& o) const {
    if (y != o.y) return y < o.y;
    if (m != o.m) return m < o.m;
    if (d != o.d) return d < o.d;
    if (hh != o.hh) return hh < o.hh;
    if (mm != o.mm) return mm < o.mm;
    return ss < o.ss;
  }
};

inline void civil_from_days(i128 z, i128* y, int* m, int* d) {
  // Estimate the year, then correct (at most a couple of steps).
  i128 yy = 1970 + floordiv(z * 400, 146097);
  while (days_from_civil(yy, 1, 1) > z) --yy;
  while (days_from_civil(yy + 1, 1, 1) <= z) ++yy;
  i128 rem = z - days_from_civil(yy, 1, 1);
  int mo = 1;
  while (rem >= days_in_month(yy, mo)) {
    rem -= days_in_month(yy, mo);
    ++mo;
  }
  *y = yy;
  *m = mo;
  *d = static_cast<int>(rem) + 1;
}

inline i128 secs_from_civil(const Civil& c) {
  return days_from_civil(c.y, c.m, c.d) * 86400 + c.hh * 3600 + c.mm * 60 +
         c.ss;
}
inline Civil civil_from_secs(i128 s) {
  Civil c;
  i128 days = floordiv(s, 86400);
  int sod = static_cast<int>(floormod(s, 86400));
  civil_from_days(days, &c.y, &c.m, &c.d);
  c.hh = sod / 3600;
  c.mm = (sod / 60) % 60;
  c.ss = sod % 60;
  return c;
}

// The mathematical value of an UN-normalized six-field tuple, per the
// documented rule: months carry into the year first, then days count from
// the first of that month, then hours/minutes/seconds are plain seconds.
inline i128 secs_from_fields(i128 y, i128 m, i128 d, i128 hh, i128 mm,
                             i128 ss) {
  i128 ny = y + floordiv(m - 1, 12);
  int nm = static_cast<int>(floormod(m - 1, 12)) + 1;
  i128 days = days_from_civil(ny, nm, 1) + (d - 1);
  return days * 86400 + hh * 3600 + mm * 60 + ss;
}
// Year after the month carry alone.
inline i128 year_after_month_carry(i128 y, i128 m) {
  return y + floordiv(m - 1, 12);
}

// 0 = Monday ... 6 = Sunday; anchored at 1970-01-01 = Thursday (3).
inline int weekday_mon0(i128 days) { return static_cast<int>(floormod(days + 3, 7)); }

inline std::string civil_str(const Civil& c) {
  char buf[64];
  snprintf(buf, sizeof buf, "-%02d-%02dT%02d:%02d:%02d", c.m, c.d, c.hh, c.mm,
           c.ss);
  return to_string(c.y) + buf;
}

// Brute-force self check: walk day by day over two Gregorian cycles with a
// hand-rolled odometer and compare with the closed forms above.
inline bool self_check() {
  i128 y = 1600;
  int m = 1, d = 1;
  i128 n = days_from_civil(1600, 1, 1);
  int wd = weekday_mon0(n);
  // 1600-01-01 was a Saturday (known): Monday=0 => Saturday=5.
  if (wd != 5) return false;
  if (days_from_civil(1970, 1, 1) != 0) return false;
  if (days_from_civil(2000, 3, 1) != 11017) return false;
  for (int i = 0; i < 2 * 146097 + 10; ++i) {
    if (days_from_civil(y, m, d) != n) return false;
    i128 y2;
    int m2, d2;
    civil_from_days(n, &y2, &m2, &d2);
    if (y2 != y || m2 != m || d2 != d) return false;
    if (weekday_mon0(n) != wd) return false;
    // successor
    ++n;
    wd = (wd + 1) % 7;
    if (++d > days_in_month(y, m)) {
      d = 1;
      if (++m > 12) {
        m = 1;
        ++y;
      }
    }
  }
  // 400-year periodicity and a few far points
  if (days_from_civil(2400, 1, 1) - days_from_civil(2000, 1, 1) != 146097)
    return false;
  if (days_from_civil(-399, 1, 1) - days_from_civil(-799, 1, 1) != 146097)
    return false;
  return true;
}

}  // namespace ref

#endif  // VERIF_REF_CIVIL_H_
