// Independent TZif *writer* and the synthetic well-formed zone family
// (DESIGN.md 2.3).  Deterministic: the family is a fixed enumeration, no RNG.
// Well-formedness (what zic could emit) is decided with the reference model,
// never with the code under test.
#ifndef VERIF_TZGEN_H_
#define VERIF_TZGEN_H_

#include <map>
#include <string>
#include <vector>

#include "ref_zone.h"

namespace tzgen {

using ref::i128;

struct TType { int off; bool dst; std::string abbr; };

struct TzSpec {
  int version = 2;          // 1..4
  bool fat = false;         // populate the 32-bit block too
  std::vector<long long> times;
  std::vector<int> idx;
  std::vector<TType> types;
  std::string footer;       // ignored for version 1
  bool indicators = false;  // write isstd/isut arrays
};

inline void put_be(std::string* o, unsigned long long v, int n) {
  for (int i = n - 1; i >= 0; --i) o->push_back(static_cast<char>((v >> (8 * i)) & 0xff));
}

inline std::string block(const TzSpec& s, int tl, char vbyte, bool empty_v1) {
  std::vector<long long> times;
  std::vector<int> idx;
  if (!empty_v1) {
    for (size_t i = 0; i < s.times.size(); ++i) {
      if (tl == 4 && (s.times[i] < -2147483648LL || s.times[i] > 2147483647LL)) continue;
      times.push_back(s.times[i]);
      idx.push_back(s.idx[i]);
    }
  }
  std::vector<TType> types = s.types;
  if (empty_v1) types.resize(1);
  std::string chars;
  std::map<std::string, int> pos;
  std::vector<int> abbrind;
  for (auto& t : types) {
    auto it = pos.find(t.abbr);
    if (it == pos.end()) {
      it = pos.insert({t.abbr, static_cast<int>(chars.size())}).first;
      chars += t.abbr;
      chars.push_back('\0');
    }
    abbrind.push_back(it->second);
  }
  size_t ind = (s.indicators && !empty_v1) ? types.size() : 0;
  std::string o = "TZif";
  o.push_back(vbyte);
  o.append(15, '\0');
  put_be(&o, ind, 4);           // isutcnt
  put_be(&o, ind, 4);           // isstdcnt
  put_be(&o, 0, 4);             // leapcnt
  put_be(&o, times.size(), 4);  // timecnt
  put_be(&o, types.size(), 4);  // typecnt
  put_be(&o, chars.size(), 4);  // charcnt
  for (long long t : times) put_be(&o, static_cast<unsigned long long>(t), tl);
  for (int i : idx) o.push_back(static_cast<char>(i));
  for (size_t i = 0; i < types.size(); ++i) {
    put_be(&o, static_cast<unsigned long long>(static_cast<long long>(types[i].off)), 4);
    o.push_back(types[i].dst ? 1 : 0);
    o.push_back(static_cast<char>(abbrind[i]));
  }
  o += chars;
  o.append(ind, '\0');  // isstd
  o.append(ind, '\0');  // isut
  return o;
}

inline std::string write_tzif(const TzSpec& s) {
  if (s.version == 1) return block(s, 4, '\0', false);
  char vb = static_cast<char>('0' + s.version);
  std::string o = block(s, 4, vb, !s.fat);
  o += block(s, 8, vb, false);
  o.push_back('\n');
  o += s.footer;
  o.push_back('\n');
  return o;
}

// ---------------------------------------------------------------------------
struct Footer {
  std::string text;   // "" = none
  std::string tag;    // class label(s), comma separated
};

inline std::string hms(int secs) {  // POSIX offset text for seconds WEST... caller handles sign
  std::string s;
  if (secs < 0) { s = "-"; secs = -secs; }
  char b[32];
  int h = secs / 3600, m = (secs / 60) % 60, sec = secs % 60;
  if (sec) snprintf(b, sizeof b, "%d:%02d:%02d", h, m, sec);
  else if (m) snprintf(b, sizeof b, "%d:%02d", h, m);
  else snprintf(b, sizeof b, "%d", h);
  return s + b;
}
inline std::string abbr_txt(const std::string& a) {
  bool plain = a.size() >= 3;
  for (char c : a) if (!((c >= 'A' && c <= 'Z') || (c >= 'a' && c <= 'z'))) plain = false;
  return plain ? a : "<" + a + ">";
}
// east offsets in seconds; times in seconds; dates as text
inline std::string footer_text(const std::string& sa, int soff, const std::string& da, int doff,
                               const std::string& d1, int t1, const std::string& d2, int t2,
                               bool explicit_dst_off) {
  std::string s = abbr_txt(sa) + hms(-soff);
  if (da.empty()) return s;
  s += abbr_txt(da);
  if (explicit_dst_off || doff != soff + 3600) s += hms(-doff);
  s += "," + d1;
  if (t1 != 7200) s += "/" + hms(t1);
  s += "," + d2;
  if (t2 != 7200) s += "/" + hms(t2);
  return s;
}

inline std::vector<Footer> footer_catalog(bool thorough) {
  std::vector<Footer> f;
  auto add = [&](const std::string& t, const std::string& tag) { f.push_back({t, tag}); };
  add("", "none");
  add("EST5", "std-only");
  add("<+0545>-5:45", "std-only,quoted");
  add("<-00>0", "std-only,zero");
  add("LMT-0:19:32", "std-only,subminute");
  // real-world shapes
  add("EST5EDT,M3.2.0,M11.1.0", "M,north");
  add("AEST-10AEDT,M10.1.0,M4.1.0/3", "M,south");
  add("CET-1CEST,M3.5.0,M10.5.0/3", "M,lastweek");
  add("<+0330>-3:30<+0430>,J79/24,J263/24", "J,24h,halfhour");
  add("IST-1GMT0,M10.5.0,M3.5.0/1", "M,negdst,south-order");
  add("<-03>3<-02>,M3.5.0/-2,M10.5.0/-1", "M,negtime");
  add("XXX-2<+03>-3,0/0,J365/25", "allyear");
  add("EST5EDT,0/0,J365/25", "allyear");
  // rules whose gap / overlap straddles the END of the time_point range (292277026596-12-04T15:30:07Z)
  add("STD0DST,J338/15,J60/0", "J,gap-straddles-max");
  add("STD0DST,J60/0,J338/16:15", "J,overlap-straddles-max");
  add("AAA5BBB,J338/10:15,J60/0", "J,gap-straddles-max,west");
  add("AAA-9:30BBB,J100,J339/1:45", "J,overlap-straddles-max,east");
  add("XXX-2<+01>-1,0/0,J365/23", "allyear,negative-saving");      // what zic writes for permanent negative-SAVE rules
  add("<+01>-1<+00>0,0/0,J365/23", "allyear,negative-saving");
  add("AAA-5:30BBB-7:30,0/0,J365/26", "allyear,2h-saving");
  add("AAA3BBB2:40,0/0,J365/24:20", "allyear,20min-saving");
  add("<+1245>-12:45<+1345>,M9.5.0/2:45,M4.1.0/3:45", "M,south,45min");
  add("LHST-10:30LHDT-11,M10.1.0,M4.1.0", "M,south,halfhourdst");
  add("IST-2IDT,M3.4.4/26,M10.5.0", "M,26h");
  add("<+02>-2<+03>,M3.5.5/24,M10.4.4/25", "M,24h,25h");
  add("AAA3BBB1,M1.1.0,M12.5.6", "M,edge-months,2hdst");
  add("<+0019>-0:19:32<+0119>-1:19:32,M3.5.0,M10.5.0", "M,subminute");
  add("WET0WEST,M3.5.0/1,M10.5.0", "M,zero");
  // abbreviations that are a proper prefix / suffix of one another (the footer's type lookup must compare whole names)
  add("<+03>-3<+0330>-3:30,M3.5.0,M10.5.0", "M,affix,std-prefix-of-dst");
  add("<+0330>-3:30<+03>-3,M3.5.0,M10.5.0", "M,affix,dst-prefix-of-std,negative-saving");
  add("EST5WEST4,M3.2.0,M11.1.0", "M,affix,std-suffix-of-dst");
  add("WEST-1EST-2,M3.5.0,M10.5.0", "M,affix,dst-suffix-of-std");
  add("LMT5LMTX,M3.2.0,M11.1.0", "M,affix,type0-name-prefix-of-dst");
  // Jn forms
  const char* jd[] = {"J1", "J59", "J60", "J365"};
  const char* jo[] = {"J200", "J250", "J300", "J150"};
  for (int i = 0; i < 4; ++i) {
    add(std::string("AAA3BBB,") + jd[i] + "," + jo[i], std::string("J,") + jd[i]);
    add(std::string("AAA-9BBB,") + jo[i] + "/1:30:45," + jd[i] + "/0", std::string("J,south,") + jd[i]);
  }
  // n forms
  const char* nd[] = {"0", "58", "59", "60", "364", "365"};
  for (int i = 0; i < 6; ++i) {
    const char* other = (i < 4) ? "250" : "100";
    if (i < 4) add(std::string("AAA3BBB,") + nd[i] + "," + other, std::string("N,") + nd[i]);
    else add(std::string("AAA3BBB,") + other + "," + nd[i] + "/1", std::string("N,") + nd[i]);
    if (i < 4) add(std::string("AAA-11BBB,") + other + "/3," + nd[i] + "/3", std::string("N,south,") + nd[i]);
  }
  // rule times
  const int rt[] = {-167 * 3600, -3600, 0, 24 * 3600, 25 * 3600, 26 * 3600, 167 * 3600, 5445};
  for (int t : rt) {
    add(footer_text("AAA", -3 * 3600, "BBB", -2 * 3600, "M4.2.3", t, "M10.2.3", 7200, false), "M,time" + hms(t));
    add(footer_text("AAA", 5 * 3600, "BBB", 6 * 3600, "M3.2.0", 7200, "M9.4.6", t, false), "M,endtime" + hms(t));
  }
  // Mm.w.d product
  const int ms[] = {1, 2, 3, 10, 12}, ws[] = {1, 2, 4, 5}, ds[] = {0, 3, 6};
  int n = 0;
  for (int m : ms) for (int w : ws) for (int d : ds) {
    ++n;
    if (!thorough && (n % 3) != 0 && !(m == 2 && w == 5) && !(m == 12 && w == 5) && !(m == 1 && w == 1)) continue;
    char b[64];
    int m2 = (m <= 3) ? m + 6 : m - 6;
    snprintf(b, sizeof b, "M%d.%d.%d", m, w, d);
    char c[64];
    snprintf(c, sizeof c, "M%d.%d.%d", m2, (w % 5) + 1, (d + 2) % 7);
    if (m <= 3) add(footer_text("AAA", 3600, "BBB", 7200, b, 7200, c, 10800, false), "M,prod");
    else add(footer_text("AAA", 3600, "BBB", 7200, c, 7200, b, 10800, false), "M,prod");
  }
  if (!thorough) {
    // every (week, weekday) pair once, months rotating, so that no single Mm.w.d value is absent from the quick tier
    int i = 0;
    for (int w = 1; w <= 5; ++w) for (int d = 0; d <= 6; ++d, ++i) {
      int m = i % 12 + 1, m2 = (m + 5) % 12 + 1;
      char b[64], c[64];
      snprintf(b, sizeof b, "M%d.%d.%d", m, w, d);
      snprintf(c, sizeof c, "M%d.%d.%d", m2, (w + 1) % 5 + 1, (d + 3) % 7);
      int so = ((i * 7) % 25 - 12) * 3600 + ((i % 4) == 0 ? 1800 : 0);
      if (m < m2) add(footer_text("AAA", so, "BBB", so + 3600, b, 7200, c, (i % 3) * 3600, false), "M,pairs");
      else add(footer_text("AAA", so, "BBB", so + 3600, c, (i % 3) * 3600, b, 7200, false), "M,pairs");
    }
  }
  if (thorough) {
    // wider sweep: every month x every week x every weekday once, varying times
    const int tt[] = {0, 3600, 7200, 86400, 93600, -3600, -7200, 5445};
    int k = 0;
    for (int m = 1; m <= 12; ++m) for (int w = 1; w <= 5; ++w) for (int d = 0; d <= 6; ++d) {
      char b[64], c[64];
      int m2 = (m + 5) % 12 + 1;
      snprintf(b, sizeof b, "M%d.%d.%d", m, w, d);
      snprintf(c, sizeof c, "M%d.%d.%d", m2, (w + 1) % 5 + 1, (d + 3) % 7);
      int t1 = tt[k % 8], t2 = tt[(k / 8) % 8];
      ++k;
      int so = ((k % 25) - 12) * 3600 + ((k % 4) == 0 ? 1800 : 0);
      if (m < m2) add(footer_text("AAA", so, "BBB", so + 3600, b, t1, c, t2, (k % 2) == 0), "M,full");
      else add(footer_text("AAA", so, "BBB", so + 3600, c, t2, b, t1, (k % 2) == 0), "M,full");
    }
    for (int j = 1; j <= 365; j += 7) {
      char b[64], c[64];
      int j2 = (j + 180) % 365 + 1;
      snprintf(b, sizeof b, "J%d", j);
      snprintf(c, sizeof c, "J%d", j2);
      add(footer_text("AAA", -4 * 3600, "BBB", -3 * 3600, b, 7200, c, 7200, false), "J,full");
      snprintf(b, sizeof b, "%d", j - 1);
      snprintf(c, sizeof c, "%d", j2 - 1);
      add(footer_text("AAA", 9 * 3600, "BBB", 10 * 3600, b, 0, c, 3600, false), "N,full");
    }
  }
  return f;
}

struct GenZone {
  std::string id;       // stable identifier "syn/<n>"
  std::string bytes;
  std::string footer;
  std::string tags;     // class labels
};

struct GenStats {
  long long generated = 0, filtered_spacing = 0, filtered_rule_order = 0, filtered_ref_reject = 0;
};

// History kinds
enum Kind { K_NONE, K_ONE, K_BEFORE, K_BETWEEN, K_AFTER, K_FAT, K_ODD, K_LEGACY_A, K_LEGACY_B, K_DSTFIRST, K_LEGACY_NEG, K_BIGBANG_CHANGE, K_TYPES255, K_CHARS255, K_NEWYEAR_OVERLAP, K_NEWYEAR_GAP, K_NKINDS };
inline const char* kind_name(int k) {
  static const char* n[] = {"none", "one", "seam-before", "seam-between", "seam-after", "fat-bigbang", "oddities", "legacy-dst-type0-first", "legacy-dst-type0-later", "first-period-is-dst", "legacy-negative-dst-type0", "bigbang-entry-changes-type", "typecnt-255", "charcnt-255", "last-transition-overlaps-new-year", "last-transition-on-jan-1"};
  return n[k];
}

// Builds one zone; returns false if the combination is not well-formed.
inline bool build_zone(const Footer& f, int kind, int version, GenZone* out, GenStats* st) {
  using namespace ref;
  Posix px;
  bool has_footer = !f.text.empty() && version >= 2;
  bool has_rule = false;
  if (!f.text.empty()) {
    if (!parse_posix(f.text, &px)) { st->filtered_ref_reject++; return false; }
    has_rule = px.has_dst;
  }
  // A temporary reference zone holding only the rule, to ask "what regime at t".
  RZone rz;
  rz.px = px;
  rz.has_rule = has_rule;
  rz.rule_std = RType{px.std_off, false, px.std_abbr};
  rz.rule_dst = RType{px.dst_off, true, px.dst_abbr};
  const int S = f.text.empty() ? -18000 : px.std_off;
  const std::string SA = f.text.empty() ? "STD" : px.std_abbr;

  if (has_rule) {
    // rule sanity: strictly alternating, far enough apart (or coinciding = all-year)
    for (i128 y = 2000; y < 2030; ++y) {
      i128 a = rule_start_utc(px, y), b = rule_end_utc(px, y);
      i128 a2 = rule_start_utc(px, y + 1), b2 = rule_end_utc(px, y + 1);
      i128 d = px.dst_off - px.std_off; if (d < 0) d = -d;
      std::vector<i128> ev = {a, b, a2, b2};
      std::sort(ev.begin(), ev.end());
      bool allyear = (b == a2);
      if (allyear) continue;
      for (int i = 0; i + 1 < 4; ++i)
        if (ev[i + 1] - ev[i] <= 2 * d) { st->filtered_rule_order++; return false; }
      // alternate: start < end < start' or end < start < end'
      if (!((a < b && b < a2) || (b < a && a < b2))) { st->filtered_rule_order++; return false; }
    }
  }
  auto regime = [&](i128 t) -> TType {
    if (has_rule) { RType r = rz.rule_at(t); return TType{r.off, r.dst, r.abbr}; }
    return TType{S, false, SA};
  };

  TzSpec s;
  s.version = version;
  s.footer = has_footer ? f.text : "";
  std::vector<TType>& T = s.types;
  auto type_index = [&](const TType& t, bool force_new = false) {
    if (!force_new)
      for (size_t i = 0; i < T.size(); ++i)
        if (T[i].off == t.off && T[i].dst == t.dst && T[i].abbr == t.abbr) return static_cast<int>(i);
    T.push_back(t);
    return static_cast<int>(T.size() - 1);
  };
  auto push = [&](long long t, const TType& ty, bool force_new = false) {
    s.times.push_back(t);
    s.idx.push_back(type_index(ty, force_new));
  };
  int lmt_off = S - 1234;
  if (lmt_off <= -86400) lmt_off = S + 1234;
  TType LMT{lmt_off, false, "LMT"};
  type_index(LMT);  // type 0

  const long long T_LMT = -2000000000LL;  // 1906-08-16
  const long long YEAR = 31556952LL;
  // rule-phase helpers
  auto rule_events = [&](i128 y0, i128 y1) {
    std::vector<std::pair<i128, int>> ev;
    for (i128 y = y0; y <= y1; ++y) {
      ev.push_back({rule_end_utc(px, y), 0});
      ev.push_back({rule_start_utc(px, y), 1});
    }
    std::sort(ev.begin(), ev.end());
    std::vector<std::pair<i128, int>> o;
    for (size_t i = 0; i < ev.size(); ++i) {
      if (i + 1 < ev.size() && ev[i + 1].first == ev[i].first) { ++i; continue; }
      o.push_back(ev[i]);
    }
    return o;
  };
  auto rtype = [&](int k) { return k ? TType{px.dst_off, true, px.dst_abbr} : TType{px.std_off, false, px.std_abbr}; };

  // an instant at or after t that is at least three days away from every rule transition (a recorded transition
  // closer to a generated one than the offset change is not well-formed: their civil times would cross)
  auto away_from_rule = [&](long long t) {
    if (!has_rule) return t;
    for (int tries = 0; tries < 12; ++tries) {
      bool close = false;
      const i128 y = civil_from_secs(t).y;
      for (i128 yy = y - 1; yy <= y + 1; ++yy)
        for (i128 e : {rule_start_utc(px, yy), rule_end_utc(px, yy)}) { i128 d = e - t; if (d < 0) d = -d; if (d < 3 * 86400) close = true; }
      if (!close) return t;
      t += 40 * 86400LL;
    }
    return t;
  };
  switch (kind) {
    case K_NONE:
      // no transitions at all; type 0 must then be what the footer says
      T.clear();
      if (has_rule) {
        // zic never writes "no transitions + DST rule"; such files belong to
        // C12 (arbitrary bytes), not to the well-formed family.
        return false;
      } else {
        T.push_back(TType{S, false, SA});
      }
      break;
    case K_ONE:
      push(T_LMT, regime(T_LMT));
      break;
    case K_BEFORE:
    case K_BETWEEN:
    case K_AFTER: {
      TType OST{S - 1800 > -86400 ? S - 1800 : S + 1800, false, "OST"};
      push(T_LMT, OST);
      if (!has_rule) {
        // without a rule the three placements degenerate: just end in STD
        push(T_LMT + 10 * YEAR, TType{S, false, SA});
        if (kind == K_BETWEEN) push(T_LMT + 20 * YEAR, TType{S + 3600 < 86400 ? S + 3600 : S - 3600, true, "DDD"}),
                               push(T_LMT + 21 * YEAR, TType{S, false, SA});
        if (kind == K_AFTER) push(2000000000LL, TType{S, false, SA});  // no-op last entry (> 2^31? no: 2033)
        break;
      }
      const i128 Y0 = 2007;
      auto ev = rule_events(Y0 - 2, Y0);
      if (ev.empty()) {  // all-year DST
        push(T_LMT + 10 * YEAR, regime(T_LMT + 10 * YEAR));
        break;
      }
      // regime just before the rule phase starts, entered in 1930
      push(T_LMT + 24 * YEAR, regime(ev.front().first - 1));
      // events of year Y0 = the last two in ev whose time is >= Jan 1 Y0 (roughly): take by count
      size_t n = ev.size();
      if (n < 4) { st->filtered_rule_order++; return false; }
      size_t upto = (kind == K_AFTER) ? n : (kind == K_BETWEEN) ? n - 1 : n - 2;
      for (size_t i = 0; i < upto; ++i) push(static_cast<long long>(ev[i].first), rtype(ev[i].second));
      if (kind == K_BEFORE) {
        // a last recorded entry early in the final year, before both of its rule transitions
        i128 t = ev[n - 3].first + (ev[n - 2].first - ev[n - 3].first) / 2;
        push(static_cast<long long>(t), regime(t));  // no-op entry (same regime), as zic's "last year" stubs
      }
      break;
    }
    case K_BIGBANG_CHANGE: {
      // not something zic writes: the entry at -2^59 selects a type OTHER than type 0, i.e. it is a genuine change.
      // cctz treats every first entry at or before -2^59 as a sentinel that next/prev_transition never report (C11
      // leaves that one change a don't-care); everything else about the file is ordinary.
      if (version < 2) return false;
      TType OST{S - 1800 > -86400 ? S - 1800 : S + 1800, false, "OST"};
      push(-(1LL << 59), OST);
      if (has_rule) {
        auto ev = rule_events(1990, 1992);
        if (ev.empty()) { push(T_LMT + YEAR, regime(T_LMT + YEAR)); break; }
        push(T_LMT + YEAR, regime(ev.front().first - 1));
        for (auto& e : ev) push(static_cast<long long>(e.first), rtype(e.second));
      } else {
        push(T_LMT + YEAR, TType{S, false, SA});
      }
      break;
    }
    case K_NEWYEAR_OVERLAP:
    case K_NEWYEAR_GAP: {
      // the LAST recorded transition is a change of the standard offset in the first hours of 1 January local time
      // (so, depending on the sign of the offset, still 31 December in UTC, or the reverse): the year from which the
      // rule is generated and the 400-year window of far-future civil times hinge on which calendar year it is taken in.
      // OVERLAP: the clock goes back across New Year (00:30 on 1 January becomes 23:30 on 31 December).
      const bool ov = (kind == K_NEWYEAR_OVERLAP);
      const int oo = ov ? S + 3600 : S - 3600;
      if (oo <= -86400 || oo >= 86400) return false;
      TType OLD{oo, false, "OLD"};
      push(T_LMT, OLD);
      const long long R = static_cast<long long>(secs_from_civil(Civil{2000, 1, 1, ov ? 0 : 5, ov ? 30 : 0, 0})) - oo;
      const TType after = regime(R);
      if (after.off != S || after.dst) return false;   // the footer must be in its standard regime at New Year
      if (away_from_rule(R) != R) { st->filtered_spacing++; return false; }   // a rule transition within days of R: civil times would cross
      push(R, after);
      break;
    }
    case K_TYPES255: {
      // exactly 255 local-time types in the file (LMT + 253 fillers + the final regime): the ONE type the footer has
      // to add gets index 255, the last value an 8-bit type index can hold
      long long t = T_LMT;
      for (int i = 0; i < 253; ++i) { push(t, TType{S + 60 * (i + 1), false, "FIL"}); t += YEAR / 4; }
      t = away_from_rule(t + YEAR);
      push(t, regime(t));
      if (T.size() != 255) return false;
      break;
    }
    case K_CHARS255: {
      // abbreviation table of exactly 255 bytes: an abbreviation the footer has to append starts at index 255
      long long t = T_LMT + 2 * YEAR;
      const long long t_last = away_from_rule(t + 40 * YEAR);
      const TType last = regime(t_last);
      if (last.abbr == "LMT") return false;
      int need = 255 - 4 - static_cast<int>(last.abbr.size() + 1);   // bytes left for the filler names (each + NUL)
      int i = 0;
      while (need > 0) {
        int len = need >= 100 ? 49 : need - 1;          // name length; the last filler takes what is left
        if (len < 3) return false;
        std::string nm(static_cast<size_t>(len), static_cast<char>('A' + i));
        push(t, TType{S + 600 * (i + 1), false, nm});
        t += YEAR;
        need -= len + 1;
        ++i;
      }
      push(t_last, last);
      break;
    }
    case K_FAT: {
      if (version < 2) return false;
      s.fat = true;
      s.indicators = true;
      push(-(1LL << 59), LMT);  // pre-2018 zic "big bang"
      if (has_rule) {
        auto ev0 = rule_events(1970, 2037);
        push(T_LMT, ev0.empty() ? regime(0) : regime(ev0.front().first - 1));
      } else {
        push(T_LMT, TType{S, false, SA});
      }
      if (has_rule) {
        auto ev = rule_events(1970, 2037);
        for (auto& e : ev) push(static_cast<long long>(e.first), rtype(e.second));
      }
      break;
    }
    case K_ODD: {
      TType OST{S - 1800 > -86400 ? S - 1800 : S + 1800, false, "OST"};
      long long t = T_LMT;
      push(t, OST);
      t += YEAR; push(t, TType{OST.off + 1800, true, "OHT"});   // 30-minute DST
      t += YEAR / 2; push(t, OST);
      if (OST.off - 3600 > -86400) {
        t += YEAR; push(t, TType{OST.off - 3600, true, "ONT"});  // negative DST
        t += YEAR / 2; push(t, OST);
      }
      t += YEAR; push(t, TType{OST.off, false, "OSS"});          // abbreviation-only change
      t += YEAR; push(t, TType{OST.off, true, "OSS"});           // isdst-only change
      t += YEAR; push(t, OST);
      t += YEAR; push(t, OST);                                   // same type index again
      t += YEAR; push(t, OST, true);                             // equivalent but distinct ttinfo
      if (S != 0) {
        int dl = S > 0 ? S - 86400 : S + 86400;
        if (dl > -86400 && dl < 86400 && (dl - OST.off < 86400) && (OST.off - dl < 86400)) {
          t += YEAR; push(t, TType{dl, false, "DLT"});           // to the other side of the date line
          t += YEAR;                                             // and back: a 24h jump
        } else {
          t += YEAR;
        }
      } else {
        t += YEAR;
      }
      if (has_rule) {
        auto ev = rule_events(1990, 1992);
        if (ev.empty()) { push(t, regime(t)); break; }
        push(t, regime(ev.front().first - 1));
        for (auto& e : ev) push(static_cast<long long>(e.first), rtype(e.second));
      } else {
        push(t, TType{S, false, SA});
      }
      break;
    }
    case K_LEGACY_NEG:
    case K_LEGACY_A:
    case K_LEGACY_B: {
      // old-zic style: type 0 is a DST type and is referenced by a transition;
      // there is no LMT type, the first standard type governs early times.
      T.clear();
      TType D0{S + 3600 < 86400 ? S + 3600 : S - 3600, true, "ODT"};
      if (kind == K_LEGACY_NEG) D0.off = (S - 3600 > -86400) ? S - 3600 : S + 3600;  // negative DST: the DST type 0 lies WEST of standard time
      TType S1{S, false, "OST"};
      type_index(D0);  // type 0
      type_index(S1);  // type 1
      long long t = T_LMT;
      if (kind != K_LEGACY_B) { push(t, D0); t += YEAR / 2; push(t, S1); }
      else { push(t, S1); t += YEAR / 2; push(t, D0); t += YEAR / 2; push(t, S1); }
      t += YEAR; push(t, D0); t += YEAR / 2; push(t, S1);
      if (has_rule) {
        auto ev = rule_events(1990, 1992);
        if (ev.empty()) { push(t + YEAR, regime(t + YEAR)); break; }
        push(t + YEAR, regime(ev.front().first - 1));
        for (auto& e : ev) push(static_cast<long long>(e.first), rtype(e.second));
      } else {
        push(t + YEAR, TType{S, false, SA});
      }
      break;
    }
    case K_DSTFIRST: {
      // what current zic writes for a zone whose FIRST period is daylight time: type 0 has isdst=1
      // and no transition refers to it; it governs all instants before the first transition
      T.clear();
      TType D0{S + 3600 < 86400 ? S + 3600 : S - 3600, true, "ODT"};
      type_index(D0);  // type 0, never referenced below
      long long t = T_LMT;
      push(t, TType{S, false, "OST"});
      t += YEAR; push(t, TType{D0.off, true, "OD2"});   // a different DST type (other abbreviation)
      t += YEAR / 2; push(t, TType{S, false, "OST"});
      if (has_rule) {
        auto ev = rule_events(1990, 1992);
        if (ev.empty()) { push(t + YEAR, regime(t + YEAR)); break; }
        push(t + YEAR, regime(ev.front().first - 1));
        for (auto& e : ev) push(static_cast<long long>(e.first), rtype(e.second));
      } else {
        push(t + YEAR, TType{S, false, SA});
      }
      break;
    }
    default:
      return false;
  }
  if (T.size() > 255) return false;
  for (auto& t : T) if (t.off <= -86400 || t.off >= 86400) { st->filtered_spacing++; return false; }
  // spacing filter over the recorded transitions (skip the big-bang entry)
  for (size_t i = 1; i < s.times.size(); ++i) {
    if (s.times[i] <= s.times[i - 1]) { st->filtered_spacing++; return false; }
    if (s.times[i - 1] <= -(1LL << 58)) continue;
    int o0 = (i >= 2) ? T[s.idx[i - 2]].off : T[0].off;
    int o1 = T[s.idx[i - 1]].off, o2 = T[s.idx[i]].off;
    long long need = std::abs(o1 - o0) + std::abs(o2 - o1);
    if (s.times[i] - s.times[i - 1] <= need) { st->filtered_spacing++; return false; }
  }
  // last type must agree with the footer at that instant
  if (has_footer && !s.times.empty()) {
    TType want = regime(s.times.back());
    const TType& got = T[s.idx.back()];
    if (want.off != got.off || want.dst != got.dst || want.abbr != got.abbr) { st->filtered_spacing++; return false; }
  }
  out->bytes = write_tzif(s);
  out->footer = s.footer;
  out->tags = std::string("kind=") + kind_name(kind) + ",v" + std::to_string(version) + "," + (s.footer.empty() ? "nofooter" : f.tag);
  st->generated++;
  return true;
}

// The family.  quick: every footer with a rotating history kind and version,
// plus every (kind, version) pair on the first few footers of each class;
// thorough: the full footer catalog x every kind x versions {1,2,3,4}.
inline std::vector<GenZone> family(bool thorough, GenStats* st) {
  std::vector<GenZone> out;
  std::vector<Footer> cat = footer_catalog(thorough);
  int n = 0;
  for (size_t fi = 0; fi < cat.size(); ++fi) {
    for (int k = 0; k < K_NKINDS; ++k) {
      for (int v = 1; v <= 4; ++v) {
        bool take = thorough;
        if (!take) {
          if (cat[fi].tag.find("affix") != std::string::npos) take = (v == 2);  // every history kind: which types exist in the file matters
          else if (fi < 20) take = (v == 2) || (k == static_cast<int>(fi % K_NKINDS));
          else take = (v == 2 + static_cast<int>(fi % 3) && (k == static_cast<int>(fi % K_NKINDS) || k == static_cast<int>((fi + 3) % K_NKINDS)));
        } else {
          // thorough: all kinds; versions 1 and 4 only on a third of the footers
          if ((v == 1 || v == 4) && (fi % 3) != 0 && fi >= 20) take = false;
        }
        if (!take) continue;
        if (v == 1 && !cat[fi].text.empty() && fi >= 20 && !thorough) continue;
        GenZone z;
        if (!build_zone(cat[fi], k, v, &z, st)) continue;
        z.id = "syn/" + std::to_string(n++) + "/f" + std::to_string(fi) + "k" + std::to_string(k) + "v" + std::to_string(v);
        out.push_back(z);
      }
    }
  }
  return out;
}

}  // namespace tzgen

#endif  // VERIF_TZGEN_H_
