// Controlled scheduler + stateless preemption-bounded explorer (CHESS-style
// iterative context bounding).  Real pthreads, exactly one runnable at a time;
// scheduling points come from hook.h wrappers, the interposed static-init
// guards, and the harness's own factory / ZoneInfoSource.
#ifndef VERIF_SCHED_H_
#define VERIF_SCHED_H_

#include <cstdint>
#include <functional>
#include <string>
#include <vector>

#include "vp.h"

namespace vsched {

struct PointRec {
  std::vector<int> enabled;  // canonical order: running thread first if still enabled, then ascending ids
  int chosen = 0;            // index into enabled
  int tid = -1;              // enabled[chosen]
  bool running_enabled = false;  // the previously running thread is enabled[0]
  int kind = 0;              // pending op kind of the chosen thread
  uint64_t state = 0;        // trace-equivalence hash of the state BEFORE this step
};

struct Exec {
  std::vector<PointRec> points;
  bool deadlock = false;
  bool diverged = false;     // prefix asked for a choice that does not exist: hard harness error
  std::string deadlock_info;
  std::vector<int> choices() const {
    std::vector<int> c;
    for (auto& p : points) c.push_back(p.chosen);
    return c;
  }
  int preemptions_before(size_t i) const {
    int n = 0;
    for (size_t k = 0; k < i && k < points.size(); ++k)
      if (points[k].running_enabled && points[k].chosen != 0) ++n;
    return n;
  }
};

// kinds_mask: bit k set => vp_kind k is a scheduling point (others pass through)
inline unsigned mask_all() { return ~0u; }
inline unsigned mask_coarse() { return (1u << VP_LOCK) | (1u << VP_FACTORY_ENTER) | (1u << VP_THREAD_END) | (1u << VP_GUARD_ACQ); }

// Runs the bodies as threads 0..n-1 under the scheduler following `prefix`
// (then choice 0 = "keep running / lowest id").
Exec run(const std::vector<std::function<void()>>& bodies, const std::vector<int>& prefix, unsigned kinds_mask);

// Current controlled thread id (-1 outside the scheduler).
int self();

struct ExploreStats {
  long long executions = 0, points = 0, pruned_by_state = 0, max_depth = 0;
  long long distinct_states = 0;
  bool capped = false;
};

// DFS over schedules with at most `bound` preemptions (bound < 0: unbounded).
// `root` restricts the search to schedules extending that prefix (used to split
// work over processes); on_exec is called for every complete execution and
// returns false to stop the search.  With use_state_pruning, a state (trace
// equivalence class) already expanded is not expanded again (only sound when
// bound < 0 or when the budget is part of the key - it is).
void explore(const std::function<Exec(const std::vector<int>& prefix)>& run_fn, int bound,
             const std::vector<int>& root, bool use_state_pruning, long long max_execs,
             const std::function<bool(const Exec&)>& on_exec, ExploreStats* st);

}  // namespace vsched

#endif  // VERIF_SCHED_H_
