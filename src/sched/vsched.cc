// See sched.h.  This TU is compiled WITHOUT the hook (it must see the real
// std::mutex etc.) and also interposes the C++ ABI's static-initialisation
// guards so that function-local statics are scheduling points.
#include "vsched.h"

#include <linux/futex.h>
#include <pthread.h>
#include <sched.h>
#include <sys/syscall.h>
#include <unistd.h>

#include <cstdio>
#include <cstdlib>
#include <cstring>
#include <map>
#include <set>
#include <unordered_set>

namespace vsched {
namespace {

// Hand-off gates: raw futex words, so that a ThreadSanitizer build (this TU is compiled WITHOUT
// -fsanitize=thread) sees no happens-before edge from the scheduler's own hand-offs: races in the
// code under test stay visible although only one thread runs at a time.
struct Gate { int w = 0; };
inline void gate_post(Gate* g) {
  __atomic_store_n(&g->w, 1, __ATOMIC_SEQ_CST);
  syscall(SYS_futex, &g->w, FUTEX_WAKE, 1, nullptr, nullptr, 0);
}
inline void gate_wait(Gate* g) {
  for (;;) {
    if (__atomic_exchange_n(&g->w, 0, __ATOMIC_SEQ_CST) == 1) return;
    syscall(SYS_futex, &g->w, FUTEX_WAIT, 0, nullptr, nullptr, 0);
  }
}

struct Thread {
  int id = -1;
  pthread_t pt;
  Gate go;
  bool done = false;
  int pend_kind = 0;
  const void* pend_obj = nullptr;
  long long npoints = 0;
  std::function<void()> body;
};

// All of this is touched by one thread at a time (hand-off through semaphores).
bool g_active = false;
unsigned g_mask = 0;
std::vector<Thread*> g_threads;
Gate g_ctl;
std::map<const void*, int>* g_owner = nullptr;          // blocking object -> owning thread
std::map<const void*, uint64_t>* g_objhash = nullptr;   // per-object operation history hash
__thread int tl_tid = -1;

inline uint64_t mix(uint64_t h, uint64_t v) {
  h ^= v + 0x9e3779b97f4a7c15ULL + (h << 6) + (h >> 2);
  h *= 0xff51afd7ed558ccdULL;
  return h ^ (h >> 33);
}

void* tramp(void* p) {
  Thread* t = static_cast<Thread*>(p);
  tl_tid = t->id;
  gate_wait(&t->go);
  t->body();
  // final point so that "thread end" can be ordered against others
  vp_point(VP_THREAD_END, nullptr);
  t->done = true;
  tl_tid = -1;
  gate_post(&g_ctl);
  return nullptr;
}

bool blocked(const Thread& t) {
  if (t.pend_kind != VP_LOCK && t.pend_kind != VP_GUARD_ACQ) return false;
  auto it = g_owner->find(t.pend_obj);
  return it != g_owner->end() && it->second != t.id;
}

uint64_t state_hash() {
  uint64_t h = 0x1234;
  for (Thread* t : g_threads) {
    h = mix(h, t->done ? 0xdead : static_cast<uint64_t>(t->npoints));
    h = mix(h, static_cast<uint64_t>(t->pend_kind));
    h = mix(h, reinterpret_cast<uintptr_t>(t->pend_obj));
  }
  for (auto& kv : *g_objhash) { h = mix(h, reinterpret_cast<uintptr_t>(kv.first)); h = mix(h, kv.second); }
  for (auto& kv : *g_owner) { h = mix(h, reinterpret_cast<uintptr_t>(kv.first)); h = mix(h, kv.second + 77); }
  return h;
}

}  // namespace

int self() { return tl_tid; }

Exec run(const std::vector<std::function<void()>>& bodies, const std::vector<int>& prefix, unsigned kinds_mask) {
  Exec ex;
  if (!g_owner) { g_owner = new std::map<const void*, int>; g_objhash = new std::map<const void*, uint64_t>; }
  g_owner->clear();
  g_objhash->clear();
  g_ctl.w = 0;
  g_mask = kinds_mask;
  g_threads.clear();
  for (size_t i = 0; i < bodies.size(); ++i) {
    Thread* t = new Thread;
    t->id = static_cast<int>(i);
    t->body = bodies[i];
    t->pend_kind = VP_OP_BEGIN;
    g_threads.push_back(t);
  }
  g_active = true;
  for (Thread* t : g_threads) pthread_create(&t->pt, nullptr, tramp, t);
  int last = -1;
  size_t pos = 0;
  for (;;) {
    // Partial-order reduction: a thread whose next step is purely local and
    // invisible (start of its next API call, thread end) commutes with every
    // step of every other thread, so it is executed at once, lowest id first,
    // without creating a choice point and without counting as a context switch.
    for (bool again = true; again;) {
      again = false;
      for (Thread* t : g_threads) {
        if (t->done || (t->pend_kind != VP_OP_BEGIN && t->pend_kind != VP_THREAD_END)) continue;
        gate_post(&t->go);
        gate_wait(&g_ctl);
        again = true;
        break;
      }
    }
    std::vector<int> en;
    bool all_done = true;
    for (Thread* t : g_threads) {
      if (t->done) continue;
      all_done = false;
      if (!blocked(*t)) en.push_back(t->id);
    }
    if (all_done) break;
    if (en.empty()) {
      ex.deadlock = true;
      for (Thread* t : g_threads)
        if (!t->done) ex.deadlock_info += "thread " + std::to_string(t->id) + " blocked on kind " + std::to_string(t->pend_kind) + "; ";
      break;  // threads stay parked; the caller must treat the process as poisoned
    }
    PointRec pr;
    // canonical order
    auto it = std::find(en.begin(), en.end(), last);
    if (it != en.end()) { pr.running_enabled = true; en.erase(it); en.insert(en.begin(), last); }
    pr.enabled = en;
    int choice = 0;
    if (pos < prefix.size()) choice = prefix[pos];
    if (choice < 0 || choice >= static_cast<int>(en.size())) { ex.diverged = true; break; }
    pr.chosen = choice;
    pr.tid = en[choice];
    Thread* t = g_threads[pr.tid];
    pr.kind = t->pend_kind;
    pr.state = state_hash();
    ex.points.push_back(pr);
    ++pos;
    // record the step in the per-object history (trace equivalence)
    const void* key = t->pend_obj ? t->pend_obj : reinterpret_cast<const void*>(static_cast<uintptr_t>(0x1000 + t->pend_kind));
    if (t->pend_kind == VP_LOCK || t->pend_kind == VP_UNLOCK || t->pend_kind == VP_ATOMIC_LOAD || t->pend_kind == VP_ATOMIC_STORE ||
        t->pend_kind == VP_GUARD_ACQ || t->pend_kind == VP_GUARD_REL || t->pend_kind == VP_FACTORY_ENTER || t->pend_kind == VP_FACTORY_EXIT)
      (*g_objhash)[key] = mix((*g_objhash)[key], static_cast<uint64_t>(t->id) * 16 + t->pend_kind);
    t->npoints++;
    last = pr.tid;
    gate_post(&t->go);
    gate_wait(&g_ctl);
  }
  g_active = false;
  if (!ex.deadlock && !ex.diverged) {
    for (Thread* t : g_threads) { pthread_join(t->pt, nullptr); delete t; }
  }
  g_threads.clear();
  return ex;
}

void explore(const std::function<Exec(const std::vector<int>& prefix)>& run_fn, int bound,
             const std::vector<int>& root, bool use_state_pruning, long long max_execs,
             const std::function<bool(const Exec&)>& on_exec, ExploreStats* st) {
  std::unordered_set<uint64_t> seen;
  std::vector<std::vector<int>> stack;
  stack.push_back(root);
  while (!stack.empty()) {
    std::vector<int> prefix = stack.back();
    stack.pop_back();
    if (max_execs >= 0 && st->executions >= max_execs) { st->capped = true; return; }
    Exec x = run_fn(prefix);
    st->executions++;
    st->points += static_cast<long long>(x.points.size());
    if (static_cast<long long>(x.points.size()) > st->max_depth) st->max_depth = static_cast<long long>(x.points.size());
    if (!on_exec(x)) return;
    if (x.deadlock || x.diverged) return;
    std::vector<int> ch = x.choices();
    // children are pushed in reverse so that the DFS visits lowest (i, alt) first
    std::vector<std::vector<int>> kids;
    for (size_t i = prefix.size(); i < x.points.size(); ++i) {
      const PointRec& p = x.points[i];
      int before = x.preemptions_before(i);
      if (use_state_pruning) {
        uint64_t key = p.state;
        key = key * 1000003ULL + static_cast<uint64_t>(bound < 0 ? 0 : bound - before) * 31 + static_cast<uint64_t>(p.running_enabled ? p.enabled[0] + 1 : 0);
        if (!seen.insert(key).second) { st->pruned_by_state++; break; }  // this state's whole subtree is (being) explored elsewhere
      }
      int cost = before + (p.running_enabled ? 1 : 0);
      if (bound >= 0 && cost > bound) continue;
      for (size_t alt = 1; alt < p.enabled.size(); ++alt) {
        std::vector<int> c(ch.begin(), ch.begin() + i);
        c.push_back(static_cast<int>(alt));
        kids.push_back(c);
      }
    }
    for (size_t k = kids.size(); k-- > 0;) stack.push_back(kids[k]);
  }
  st->distinct_states = static_cast<long long>(seen.size());
}

}  // namespace vsched

// ---------------------------------------------------------------------------
extern "C" {

void vp_point(int kind, const void* obj) {
  using namespace vsched;
  if (!g_active || tl_tid < 0) return;
  if (!(g_mask & (1u << kind))) return;
  Thread* t = g_threads[tl_tid];
  t->pend_kind = kind;
  t->pend_obj = obj;
  gate_post(&g_ctl);
  gate_wait(&t->go);
  t->pend_kind = 0;
  t->pend_obj = nullptr;
}

void vp_acquired(const void* obj) {
  using namespace vsched;
  if (!g_active || tl_tid < 0) return;
  (*g_owner)[obj] = tl_tid;
}
void vp_released(const void* obj) {
  using namespace vsched;
  if (!g_active || tl_tid < 0) return;
  g_owner->erase(obj);
}

// Under ThreadSanitizer the guard protocol below is invisible (uninstrumented TU), so the
// happens-before edge "initialisation complete -> later users" is announced explicitly.
void __tsan_acquire(void* addr) __attribute__((weak));
void __tsan_release(void* addr) __attribute__((weak));
static inline void ann_acquire(void* a) { if (__tsan_acquire) __tsan_acquire(a); }
static inline void ann_release(void* a) { if (__tsan_release) __tsan_release(a); }

// --- function-local statics -------------------------------------------------
// Itanium ABI: byte 0 of the guard = "initialised".  Byte 1 is used here as the
// "in progress" flag.  No function-local static may be used in here.
int __cxa_guard_acquire(uint64_t* g) {
  volatile unsigned char* b = reinterpret_cast<volatile unsigned char*>(g);
  if (__atomic_load_n(b, __ATOMIC_ACQUIRE)) { ann_acquire(g); return 0; }
  vp_point(VP_GUARD_ACQ, g);
  for (;;) {
    if (__atomic_load_n(b, __ATOMIC_ACQUIRE)) { ann_acquire(g); return 0; }
    unsigned char expected = 0;
    if (__atomic_compare_exchange_n(const_cast<unsigned char*>(b + 1), &expected, 1, false, __ATOMIC_ACQ_REL, __ATOMIC_ACQUIRE)) {
      vp_acquired(g);
      ann_acquire(g);
      return 1;
    }
    sched_yield();  // only reachable outside the scheduler (free-running phases)
  }
}
void __cxa_guard_release(uint64_t* g) {
  volatile unsigned char* b = reinterpret_cast<volatile unsigned char*>(g);
  vp_point(VP_GUARD_REL, g);
  ann_release(g);
  __atomic_store_n(b, 1, __ATOMIC_RELEASE);
  __atomic_store_n(b + 1, 0, __ATOMIC_RELEASE);
  vp_released(g);
}
void __cxa_guard_abort(uint64_t* g) {
  volatile unsigned char* b = reinterpret_cast<volatile unsigned char*>(g);
  __atomic_store_n(b + 1, 0, __ATOMIC_RELEASE);
  vp_released(g);
}

}  // extern "C"
