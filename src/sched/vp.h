// C interface between hooked synchronisation operations and the scheduler.
#ifndef VERIF_VP_H_
#define VERIF_VP_H_
#ifdef __cplusplus
extern "C" {
#endif
enum vp_kind {
  VP_LOCK = 1,       // about to acquire a mutex (blocking: disabled while held by another thread)
  VP_UNLOCK = 2,     // about to release a mutex
  VP_ATOMIC_LOAD = 3,
  VP_ATOMIC_STORE = 4,
  VP_GUARD_ACQ = 5,  // function-local static: about to test/enter the guard (blocking while another thread initialises)
  VP_GUARD_REL = 6,  // initialisation finished
  VP_FACTORY_ENTER = 7,
  VP_FACTORY_EXIT = 8,
  VP_READ = 9,       // first Read() of a ZoneInfoSource
  VP_THREAD_END = 10,
  VP_OP_BEGIN = 11,  // harness: a thread starts its next API call
};
// Scheduling point: called BEFORE the operation takes effect.
void vp_point(int kind, const void* obj);
// Bookkeeping for blocking objects, called right after the operation took effect.
void vp_acquired(const void* obj);
void vp_released(const void* obj);
#ifdef __cplusplus
}
#endif
#endif
