// Thread bodies, zone data, instrumented factory and oracle shared by the
// schedule explorer (hooked build) and the free-running TSan side pass.
#ifndef VERIF_SCHED_BODIES_H_
#define VERIF_SCHED_BODIES_H_
#include <cstdlib>

#include <pthread.h>

#include <atomic>
#include <cstring>
#include <functional>
#include <map>
#include <memory>
#include <mutex>
#include <sstream>
#include <string>
#include <vector>

#include "../common/tzgen.h"
#include "cctz/civil_time.h"
#include "cctz/time_zone.h"
#include "cctz/zone_info_source.h"
#include "time_zone_impl.h"
#include "vp.h"

#ifdef VERIF_FREE_RUNNING
// TSan pass: no scheduler; points vanish, the log is protected by a real mutex.
#define VP_POINT(k, o) ((void)0)
namespace vsched { inline int self() { return -1; } }
#else
#include "vsched.h"
#define VP_POINT(k, o) vp_point(k, o)
#endif

namespace bodies {

struct Op {
  enum K { LOAD, LOOKUP_TP, LOOKUP_CS, NEXT, PREV, FORMAT, PARSE, FIXED, UTC, LOCAL } k;
  std::string name;  // LOAD: zone name; FORMAT/PARSE: format string
  long long t;       // instant / civil seconds / offset
};

struct FactoryEvent { int tid; std::string name; bool enter; int inside_after; bool on_caller; };

struct World {
  std::map<std::string, std::string> zones;  // name -> bytes
  // per-execution state
  std::vector<FactoryEvent> flog;
  int inside = 0;          // threads currently between factory enter and exit
  int max_inside = 0;
  std::map<std::string, int> fcalls;
  std::mutex mu;           // only contended in the free-running pass
  std::vector<std::string> cur_load;  // per thread: name being loaded right now ("" if none)
  std::vector<pthread_t> cur_thread;  // per slot: the OS thread that is executing that load_time_zone call
  void reset_exec(size_t nthreads) {
    flog.clear(); inside = 0; max_inside = 0; fcalls.clear();
    cur_load.assign(nthreads + 1, "");
    cur_thread.assign(nthreads + 1, pthread_self());
  }
};
inline World& world() { static World* w = new World; return *w; }

inline int tid_slot() { int t = vsched::self(); return t < 0 ? static_cast<int>(world().cur_load.size()) - 1 : t; }

struct Source : public cctz::ZoneInfoSource {
  explicit Source(const std::string& b) : bytes(b), pos(0), first(true) {}
  std::size_t Read(void* ptr, std::size_t size) override {
    if (first) { first = false; VP_POINT(VP_READ, nullptr); }
    size = std::min(size, bytes.size() - pos);
    if (size) memcpy(ptr, bytes.data() + pos, size);
    pos += size;
    return size;
  }
  int Skip(std::size_t off) override { pos += std::min(off, bytes.size() - pos); return 0; }
  std::string bytes;
  std::size_t pos;
  bool first;
};

inline std::unique_ptr<cctz::ZoneInfoSource> Factory(const std::string& name,
    const std::function<std::unique_ptr<cctz::ZoneInfoSource>(const std::string&)>&) {
  World& w = world();
  {
    std::lock_guard<std::mutex> l(w.mu);
    w.inside++;
    if (w.inside > w.max_inside) w.max_inside = w.inside;
    w.fcalls[name]++;
    const std::vector<std::string>& cl = w.cur_load;
    const int me = vsched::self();
    // (1) the invoking thread must be the one that is inside load_time_zone(name) right now:
    // some slot must be loading this name from exactly this OS thread (a helper thread spawned by
    // the library would have no slot of its own and a different pthread id)
    bool on_caller = false;
#ifdef VERIF_FREE_RUNNING
    on_caller = true;
#else
    {
      const size_t slot = (me < 0) ? cl.size() - 1 : static_cast<size_t>(me);
      on_caller = slot < cl.size() && cl[slot] == name && pthread_equal(w.cur_thread[slot], pthread_self());
    }
#endif
    w.flog.push_back({me, name, true, w.inside, on_caller});
  }
  VP_POINT(VP_FACTORY_ENTER, nullptr);  // yield while inside: another invocation may now overlap
  std::unique_ptr<cctz::ZoneInfoSource> src;
  auto it = w.zones.find(name);
  if (it != w.zones.end()) src.reset(new Source(it->second));
  VP_POINT(VP_FACTORY_EXIT, nullptr);
  {
    std::lock_guard<std::mutex> l(w.mu);
    w.inside--;
    w.flog.push_back({vsched::self(), name, false, w.inside, true});
  }
  return src;
}

inline void setup_world() {
  World& w = world();
  tzgen::GenStats st;
  tzgen::GenZone a, b, c;
  tzgen::build_zone({"EST5", "std"}, tzgen::K_ODD, 2, &a, &st);
  tzgen::build_zone({"<+0545>-5:45", "std"}, tzgen::K_ONE, 2, &b, &st);
  tzgen::build_zone({"CET-1CEST,M3.5.0,M10.5.0/3", "rule"}, tzgen::K_BETWEEN, 2, &c, &st);
  w.zones["A"] = a.bytes;
  w.zones["A2"] = a.bytes;   // same bytes, different key
  w.zones["B"] = b.bytes;
  w.zones["R"] = c.bytes;    // rule-extended zone (big table) for lookup harnesses
  w.zones["BAD"] = std::string("TZif2") + std::string(60, '\0');  // served but rejected by Load
  w.zones["file:B"] = a.bytes;  // a name that differs from "B" only by the file: prefix (and serves other data)
  // "X" is not served at all (factory returns nullptr)
  cctz_extension::zone_info_source_factory = Factory;
}

// One thread's observations, op by op.
struct Obs {
  std::vector<std::string> res;        // observable results (compared with the sequential reference)
  std::vector<cctz::time_zone> zones;  // the time_zone obtained by each LOAD/FIXED/UTC (for identity checks)
  std::vector<std::string> znames;     // requested name for those
};

inline std::string show(const cctz::time_zone::absolute_lookup& al) {
  std::ostringstream o;
  o << al.cs << " off=" << al.offset << " dst=" << al.is_dst << " " << al.abbr;
  return o.str();
}

inline void run_ops(const std::vector<Op>& ops, Obs* obs) {
  cctz::time_zone cur = cctz::utc_time_zone();
  const int slot = tid_slot();
  (void)slot;
  for (const Op& op : ops) {
    VP_POINT(VP_OP_BEGIN, nullptr);
    std::ostringstream o;
    switch (op.k) {
      case Op::LOAD: {
        cctz::time_zone tz;
#ifndef VERIF_FREE_RUNNING
        world().cur_load[slot] = op.name;
        world().cur_thread[slot] = pthread_self();
#endif
        bool ok = cctz::load_time_zone(op.name, &tz);
#ifndef VERIF_FREE_RUNNING
        world().cur_load[slot] = "";
#endif
        o << "load(" << op.name << ")=" << ok << " utc=" << (tz == cctz::utc_time_zone()) << " name=" << tz.name();
        obs->zones.push_back(tz);
        obs->znames.push_back(op.name);
        cur = tz;
        break;
      }
      case Op::FIXED: {
        cctz::time_zone tz = cctz::fixed_time_zone(cctz::seconds(op.t));
        o << "fixed(" << op.t << ") name=" << tz.name() << " " << show(tz.lookup(cctz::time_point<cctz::seconds>(cctz::seconds(0))));
        obs->zones.push_back(tz);
        obs->znames.push_back(tz.name());
        cur = tz;
        break;
      }
      case Op::UTC: {
        cctz::time_zone tz = cctz::utc_time_zone();
        o << "utc name=" << tz.name() << " eq_default=" << (tz == cctz::time_zone());
        obs->zones.push_back(tz);
        obs->znames.push_back("UTC");
        cur = tz;
        break;
      }
      case Op::LOCAL: {
#ifndef VERIF_FREE_RUNNING
        { const char* e = getenv("TZ"); std::string n = e ? e : ""; if (!n.empty() && n[0] == ':') n.erase(0, 1); world().cur_load[slot] = n; world().cur_thread[slot] = pthread_self(); }
#endif
        cctz::time_zone tz = cctz::local_time_zone();
#ifndef VERIF_FREE_RUNNING
        world().cur_load[slot] = "";
#endif
        o << "local name=" << tz.name() << " utc=" << (tz == cctz::utc_time_zone()) << " " << show(tz.lookup(cctz::time_point<cctz::seconds>(cctz::seconds(0))));
        obs->zones.push_back(tz);
        { const char* e = getenv("TZ"); std::string n = e ? e : ""; if (!n.empty() && n[0] == ':') n.erase(0, 1); obs->znames.push_back(n); }
        cur = tz;
        break;
      }
      case Op::LOOKUP_TP:
        o << "lookup_tp(" << op.t << ")=" << show(cur.lookup(cctz::time_point<cctz::seconds>(cctz::seconds(op.t))));
        break;
      case Op::LOOKUP_CS: {
        cctz::civil_second cs = cctz::civil_second() + op.t;
        auto cl = cur.lookup(cs);
        o << "lookup_cs(" << cs << ")=" << cl.kind << " " << cl.pre.time_since_epoch().count() << " " << cl.trans.time_since_epoch().count() << " " << cl.post.time_since_epoch().count();
        break;
      }
      case Op::NEXT: {
        cctz::time_zone::civil_transition tr;
        bool ok = cur.next_transition(cctz::time_point<cctz::seconds>(cctz::seconds(op.t)), &tr);
        o << "next(" << op.t << ")=" << ok;
        if (ok) o << " " << tr.from << "->" << tr.to;
        break;
      }
      case Op::PREV: {
        cctz::time_zone::civil_transition tr;
        bool ok = cur.prev_transition(cctz::time_point<cctz::seconds>(cctz::seconds(op.t)), &tr);
        o << "prev(" << op.t << ")=" << ok;
        if (ok) o << " " << tr.from << "->" << tr.to;
        break;
      }
      case Op::FORMAT:
        o << "format=" << cctz::format(op.name, cctz::time_point<cctz::seconds>(cctz::seconds(op.t)), cur);
        break;
      case Op::PARSE: {
        cctz::time_point<cctz::seconds> tp;
        std::string in = cctz::format(op.name, cctz::time_point<cctz::seconds>(cctz::seconds(op.t)), cur);
        bool ok = cctz::parse(op.name, in, cur, &tp);
        o << "parse(" << in << ")=" << ok << " " << tp.time_since_epoch().count();
        break;
      }
    }
    obs->res.push_back(o.str());
  }
}

struct Harness {
  std::string id, purpose;
  std::vector<std::vector<Op>> threads;
  std::vector<std::string> preload;  // names loaded sequentially before the threads start
  bool expect_contention;            // vacuity guard: more than one distinct outcome must occur
  std::string tz_env = "";           // value of $TZ while this harness runs ("" = "UTC")
};
inline void apply_env(const Harness& h) { setenv("TZ", h.tz_env.empty() ? "UTC" : h.tz_env.c_str(), 1); }

inline Op L(const std::string& n) { return Op{Op::LOAD, n, 0}; }
inline Op TP(long long t) { return Op{Op::LOOKUP_TP, "", t}; }
inline Op CS(long long t) { return Op{Op::LOOKUP_CS, "", t}; }

inline std::vector<Harness> harnesses() {
  std::vector<Harness> h;
  const std::string F = "Fixed/UTC+01:00:00";
  h.push_back({"H1", "two threads, first load of one name", {{L("A")}, {L("A")}}, {}, true});
  h.push_back({"H2", "three-way race on one name", {{L("A")}, {L("A")}, {L("A")}}, {}, true});
  h.push_back({"H3", "crossing load orders on two names", {{L("A"), L("B")}, {L("B"), L("A")}}, {}, true});
  h.push_back({"H4", "valid load racing two failing loads", {{L("A")}, {L("X")}, {L("X")}}, {}, true});
  h.push_back({"H4b", "served-but-rejected data racing itself and a valid load", {{L("BAD")}, {L("BAD")}, {L("B")}}, {}, true});
  h.push_back({"H5", "no-data names and the UTC static", {{L(F)}, {Op{Op::FIXED, "", 3600}}, {L("UTC"), Op{Op::UTC, "", 0}}}, {}, false});
  // t values: inside different intervals of zone A's table (1907.., 1912.., 1930)
  // well-formed fixed-offset SHAPE but out of range: not a fixed-offset name, so it goes to the data source
  const std::string OOR = "Fixed/UTC+25:00:00";
  h.push_back({"H5b", "out-of-range fixed-shaped name racing itself and a real zone", {{L(OOR)}, {L(OOR)}, {L("A")}}, {}, true});
  h.push_back({"H5c", "UTC0 / fixed / local_time_zone / default zone", {{L("UTC0"), Op{Op::LOCAL, "", 0}}, {Op{Op::FIXED, "", -1}, L("Fixed/UTC-00:00:01")}, {Op{Op::LOCAL, "", 0}, Op{Op::UTC, "", 0}}}, {}, false});
  h.push_back({"H5d", "names differing only by a file: prefix, racing", {{L("file:B")}, {L("file:B")}, {L("B")}}, {}, true});
  h.push_back({"H5e", "zero-offset fixed name and UTC0 next to a real first load", {{L("Fixed/UTC+00:00:00"), L("UTC0")}, {L("A")}, {L("Fixed/UTC-00:00:00")}}, {}, false});
  h.push_back({"H6", "loads mixed with lookups on the shared Impl",
               {{L("A"), TP(-1900000000LL), CS(-1900000000LL - 18000)}, {L("A"), TP(-1700000000LL), CS(-1700000000LL - 18000), Op{Op::NEXT, "", -1950000000LL}}}, {}, true});
  h.push_back({"H6b", "far-future (400-year shifted) and near lookups racing on a rule-extended zone",
               {{L("R"), TP(20000000000LL), CS(1206838800LL + 7200 + 5), Op{Op::PREV, "", 1206838800LL}}, {L("R"), TP(1193533200LL - 1), TP(40000000000LL), CS(1193533200LL + 3600)}}, {}, true});
  // $TZ names a zone served by the data source: local_time_zone() performs a real first load, racing itself and a direct load
  h.push_back({"H9", "local_time_zone() racing itself and a direct load of the zone $TZ names", {{Op{Op::LOCAL, "", 0}}, {Op{Op::LOCAL, "", 0}}, {L("A")}}, {}, true, "A"});
  h.push_back({"H9b", "local_time_zone() with $TZ = :B next to loads of other names", {{Op{Op::LOCAL, "", 0}, Op{Op::LOCAL, "", 0}}, {L("A"), Op{Op::LOCAL, "", 0}}}, {}, true, ":B"});
  h.push_back({"H7", "three threads looking up a pre-loaded zone (hint words)",
               {{L("R"), TP(1193533200LL), CS(1193533200LL + 3600)}, {L("R"), TP(1206838800LL + 5), CS(1206838800LL + 7200 + 5)}, {L("R"), TP(3000000000LL), Op{Op::FORMAT, "%Y-%m-%d %H:%M:%S %z", 1193533200LL}}}, {"R"}, false});
  return h;
}

// coarse harnesses: 4 threads, one load each
inline std::vector<Harness> coarse_harnesses() {
  std::vector<Harness> h;
  const std::string F = "Fixed/UTC+01:00:00";
  h.push_back({"H8-AAAA", "4 x same name", {{L("A")}, {L("A")}, {L("A")}, {L("A")}}, {}, true});
  h.push_back({"H8-AABB", "2 names x 2", {{L("A")}, {L("A")}, {L("B")}, {L("B")}}, {}, true});
  h.push_back({"H8-AABX", "2 same + valid + failing", {{L("A")}, {L("A")}, {L("B")}, {L("X")}}, {}, true});
  h.push_back({"H8-ABXF", "all different kinds", {{L("A")}, {L("B")}, {L("X")}, {L(F)}}, {}, false});
  h.push_back({"H8-XXAA", "2 failing + 2 valid", {{L("X")}, {L("X")}, {L("A")}, {L("A")}}, {}, true});
  h.push_back({"H8-OOAB", "2 out-of-range fixed-shaped + 2 valid", {{L("Fixed/UTC+25:00:00")}, {L("Fixed/UTC+25:00:00")}, {L("A")}, {L("B")}}, {}, true});
  return h;
}

// ---- oracle ---------------------------------------------------------------
struct Verdict {
  std::vector<std::string> c13;  // violations of C13's oracle
  std::vector<std::string> c20;  // violations of C20's factory-log predicates
  std::string outcome;           // digest of what was observed (for distinct-outcome counting)
};

inline bool is_fixed_or_utc(const std::string& n) {
  if (n == "UTC" || n == "UTC0") return true;
  if (n.size() != 18 || n.compare(0, 9, "Fixed/UTC") != 0 || (n[9] != '+' && n[9] != '-') || n[12] != ':' || n[15] != ':') return false;
  int d[6]; const int p[6] = {10, 11, 13, 14, 16, 17};
  for (int i = 0; i < 6; ++i) { if (n[p[i]] < '0' || n[p[i]] > '9') return false; d[i] = n[p[i]] - '0'; }
  return (d[0] * 10 + d[1]) * 3600 + (d[2] * 10 + d[3]) * 60 + d[4] * 10 + d[5] <= 86400;
}

inline Verdict judge(const Harness& h, const std::vector<Obs>& obs, const std::vector<Obs>& seq, bool reload_check = true) {
  Verdict v;
  World& w = world();
  std::ostringstream dig;
  // (3) every observable result equals the sequential run
  for (size_t t = 0; t < obs.size(); ++t) {
    if (obs[t].res.size() != seq[t].res.size()) { v.c13.push_back("thread " + std::to_string(t) + " did not complete its operations"); continue; }
    for (size_t i = 0; i < obs[t].res.size(); ++i)
      if (obs[t].res[i] != seq[t].res[i])
        v.c13.push_back("thread " + std::to_string(t) + " op " + std::to_string(i) + ": concurrent result [" + obs[t].res[i] + "] differs from single-threaded result [" + seq[t].res[i] + "]");
  }
  // (2) identities: all values for one name compare equal, also with a later sequential re-load
  std::map<std::string, std::vector<cctz::time_zone>> byname;
  for (auto& o : obs) for (size_t i = 0; i < o.zones.size(); ++i) byname[o.znames[i]].push_back(o.zones[i]);
  for (auto& kv : byname) {
    for (size_t i = 1; i < kv.second.size(); ++i)
      if (kv.second[i] != kv.second[0]) v.c13.push_back("two loads of '" + kv.first + "' returned time_zone values that do not compare equal");
    if (!reload_check) continue;
    cctz::time_zone again;
    cctz::load_time_zone(kv.first, &again);
    if (again != kv.second[0]) v.c13.push_back("a later re-load of '" + kv.first + "' returned a different identity than the racing loads");
  }
  // distinct names must not share an identity unless both are UTC
  for (auto& a : byname) for (auto& b : byname)
    if (a.first < b.first && a.second[0] == b.second[0] && a.second[0] != cctz::utc_time_zone())
      v.c13.push_back("distinct names '" + a.first + "' and '" + b.first + "' share an identity");
  // (4) factory log predicates (C20)
  std::map<std::string, int> enters;
  int inside = 0;
  for (auto& e : w.flog) {
    dig << (e.enter ? "+" : "-") << e.tid << e.name << ",";
    if (e.enter) {
      enters[e.name]++;
      if (++inside > 1) v.c20.push_back("factory invoked concurrently: thread " + std::to_string(e.tid) + " entered for '" + e.name + "' while another invocation was in progress");
      if (is_fixed_or_utc(e.name)) v.c20.push_back("factory invoked for fixed-offset/UTC name '" + e.name + "'");
      if (!e.on_caller) v.c20.push_back("factory for '" + e.name + "' ran on thread " + std::to_string(e.tid) + ", which is not the thread calling load_time_zone for that name");
    } else {
      --inside;
    }
  }
  for (auto& kv : enters)
    if (kv.second > 1) v.c20.push_back("factory invoked " + std::to_string(kv.second) + " times for the one name '" + kv.first + "'");
  v.outcome = dig.str();
  return v;
}

}  // namespace bodies

#endif  // VERIF_SCHED_BODIES_H_
