// Force-included (-include) into every cctz translation unit of the "sched"
// build variant, together with -DCCTZ_VERIF_SCHED.  Nothing in /repo is edited:
// std::mutex and std::atomic *as spelled in cctz's sources* are redirected to
// wrappers that announce every operation to the scheduler first.
#ifndef VERIF_HOOK_H_
#define VERIF_HOOK_H_
#ifdef CCTZ_VERIF_SCHED
#include <bits/stdc++.h>  // every standard header first, so the macros below cannot touch them

#include "vp.h"

namespace std {

// Exactly one thread runs at a time under the scheduler, so no real lock is
// needed for mutual exclusion; ownership is tracked to make blocking visible.
class verif_mutex {
 public:
  constexpr verif_mutex() noexcept : owner_(0) {}
  verif_mutex(const verif_mutex&) = delete;
  verif_mutex& operator=(const verif_mutex&) = delete;
  void lock() {
    vp_point(VP_LOCK, this);
    real_.lock();
    vp_acquired(this);
  }
  void unlock() {
    vp_point(VP_UNLOCK, this);
    real_.unlock();
    vp_released(this);
  }
  bool try_lock() {
    vp_point(VP_LOCK, this);
    if (!real_.try_lock()) return false;
    vp_acquired(this);
    return true;
  }

 private:
  std::mutex real_;  // keeps free-running (unscheduled) phases correct
  int owner_;
};

template <typename T>
class verif_atomic {
 public:
  constexpr verif_atomic() noexcept : v_() {}
  constexpr verif_atomic(T v) noexcept : v_(v) {}
  verif_atomic(const verif_atomic&) = delete;
  verif_atomic& operator=(const verif_atomic&) = delete;
  T load(std::memory_order o = std::memory_order_seq_cst) const noexcept {
    vp_point(VP_ATOMIC_LOAD, this);
    return v_.load(o);
  }
  void store(T v, std::memory_order o = std::memory_order_seq_cst) noexcept {
    vp_point(VP_ATOMIC_STORE, this);
    v_.store(v, o);
  }
  operator T() const noexcept { return load(); }
  T operator=(T v) noexcept { store(v); return v; }
  T exchange(T v, std::memory_order o = std::memory_order_seq_cst) noexcept {
    vp_point(VP_ATOMIC_STORE, this);
    return v_.exchange(v, o);
  }
  bool compare_exchange_strong(T& e, T d, std::memory_order o = std::memory_order_seq_cst) noexcept {
    vp_point(VP_ATOMIC_STORE, this);
    return v_.compare_exchange_strong(e, d, o);
  }
  T fetch_add(T d, std::memory_order o = std::memory_order_seq_cst) noexcept {
    vp_point(VP_ATOMIC_STORE, this);
    return v_.fetch_add(d, o);
  }

 private:
  std::atomic<T> v_;
};

}  // namespace std

#define mutex verif_mutex
#define atomic verif_atomic
#endif  // CCTZ_VERIF_SCHED
#endif  // VERIF_HOOK_H_
