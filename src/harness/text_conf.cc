// E1 harness for C07 (format/parse round trip), C08 (format renders what
// lookup reports; no UB for any format string) and C09 (parse accepts exactly
// well-formed in-range input and returns the denoted instant).
#include <climits>

#include "../common/harness.h"
#include "../common/impl_glue.h"
#include "../common/ref_text.h"
#include "../common/ref_zone.h"
#include "../common/tzgen.h"

using ref::i128;
using ref::Civil;
typedef cctz::detail::femtoseconds FS;

static std::string g_prop;
static std::string s128(i128 v) { return ref::to_string(v); }
static Civil civil_of(const cctz::civil_second& c) { return Civil{c.year(), c.month(), c.day(), c.hour(), c.minute(), c.second()}; }

struct TZ { std::string id; cctz::time_zone tz; bool whole_minutes = true; std::vector<long long> probes; };

static std::vector<TZ> g_zones;
static std::string g_repo;

static void add_fixed(int off) {
  TZ z; z.id = "fixed/" + std::to_string(off); z.tz = cctz::fixed_time_zone(cctz::seconds(off)); z.whole_minutes = (off % 60) == 0;
  g_zones.push_back(z);
}
static void add_bytes(const std::string& id, const std::string& bytes) {
  TZ z; z.id = id;
  if (!glue::load_bytes("txt/" + id, bytes, &z.tz)) return;
  ref::RZone rz = ref::RZone::from_bytes(bytes);
  if (!rz.ok) return;
  for (auto& t : rz.types) if (t.off % 60) z.whole_minutes = false;
  if (rz.has_rule && ((rz.px.std_off % 60) || (rz.px.dst_off % 60))) z.whole_minutes = false;
  for (size_t i = 0; i < rz.times.size(); ++i)
    if (i < 3 || i + 3 >= rz.times.size() || (i % 16) == 0) { long long t = static_cast<long long>(rz.times[i]); z.probes.push_back(t - 1); z.probes.push_back(t); }
  g_zones.push_back(z);
}
static void build_zones(bool thorough) {
  const int fo[] = {0, 1, -1, 30, -30, 59, -59, 60, -60, 3599, -3599, 3600, -3600, 20700, -20700, 86399, -86399, 86400, -86400};
  for (int o : fo) add_fixed(o);
  const char* names[] = {"America/New_York", "Europe/London", "Asia/Kathmandu", "Australia/Lord_Howe", "Africa/Monrovia", "Pacific/Apia", "America/Nuuk", "Asia/Gaza", "Europe/Dublin", "Pacific/Chatham",
                         "Pacific/Kiritimati", "America/Caracas", "Asia/Tehran", "Europe/Amsterdam", "Asia/Kolkata", "America/St_Johns", "Pacific/Marquesas", "Asia/Pyongyang", "Antarctica/Troll", "Africa/Casablanca",
                         "America/Anchorage", "Asia/Manila", "Europe/Lisbon", "Africa/Cairo", "America/Jamaica"};
  int n = 0;
  for (const char* nm : names) { if (!thorough && n++ >= 14) break; std::string b = glue::read_file(g_repo + "/testdata/zoneinfo/" + nm); if (!b.empty()) add_bytes(nm, b); }
  tzgen::GenStats st;
  auto fam = tzgen::family(false, &st);
  for (size_t i = 0; i < fam.size(); i += (thorough ? 12 : 40)) add_bytes(fam[i].id, fam[i].bytes);
}

// ===========================================================================
// C07
static std::vector<std::string> c07_formats(bool thorough, bool whole_minutes, bool e4y_ok, std::vector<std::string>* tags) {
  const char* date[] = {"%Y-%m-%d", "%m/%d/%Y", "%d.%m.%Y", "%Y %U %w", "%Y %W %u", "%b %d %Y", "%B %e %Y", "%E4Y-%m-%d"};
  const char* tim[] = {"%H:%M:%E*S", "%H%M%S.%E*f", "%H:%M:%E15S", "%I:%M:%E*S %p"};
  const char* offs[] = {"%E*z", "%::z", "%Ez", "%z", "%:z"};
  const char* seps[] = {" ", "%ET", "_"};
  std::vector<std::string> out;
  int n = 0;
  for (int d = 0; d < 8; ++d) for (int t = 0; t < 4; ++t) for (int o = 0; o < 5; ++o) {
    if (o >= 2 && !whole_minutes) continue;
    if (d == 7 && !e4y_ok) continue;
    for (int ord = 0; ord < 3; ++ord) for (int sp = 0; sp < 3; ++sp) {
      ++n;
      if (!thorough && !((ord == (d + t + o) % 3 && sp == (d * 2 + t + o) % 3) || (d == 0 && t == 0 && o == 0))) continue;
      const std::string D = date[d], T = tim[t], O = offs[o], S = seps[sp];
      std::string f = ord == 0 ? D + S + T + S + O : ord == 1 ? O + S + D + S + T : T + S + O + S + D;
      // separator "_" directly after a bare %Y would be fine; after "%w"/"%u" too
      out.push_back(f);
      if (tags) tags->push_back(std::string("d") + std::to_string(d) + "t" + std::to_string(t) + "o" + std::to_string(o));
    }
  }
  return out;
}

static void c07_one(const TZ& z, long long t, long long fs, const std::string& fmt, const std::vector<const TZ*>& others, hz::Result& r, const char* cls) {
  const auto tp = glue::tp_of(t);
  const std::string text = cctz::detail::format(fmt, tp, FS(fs), z.tz);
  for (const TZ* o : others) {
    cctz::time_point<cctz::seconds> back;
    FS bfs(-1);
    std::string err;
    const bool ok = cctz::detail::parse(fmt, text, o->tz, &back, &bfs, &err);
    r.count("evaluations");
    if (!ok || back != tp || bfs.count() != fs) {
      r.violation(std::string("C07:roundtrip:") + cls, "zone " + z.id + " t=" + std::to_string(t) + " fs=" + std::to_string(fs) + " fmt=" + hz::jstr(fmt) + " text=" + hz::jstr(text) + " parsed in " + o->id + ": " + (ok ? "t=" + std::to_string(glue::unix_of(back)) + " fs=" + std::to_string(bfs.count()) : "FAILED (" + err + ")"),
                  {"--rt", z.id, std::to_string(t), std::to_string(fs), hz::hex(fmt)});
      return;
    }
  }
  r.cls(std::string("C07:") + cls);
}

static void c07_run(int shard, int nshards, const hz::Args& a, hz::Result& r) {
  const bool th = a.thorough();
  std::vector<long long> FSV = {0, 1, 9, 10, 99, 101, 999999, 1000001, 500000000000000LL, 999999999999999LL, 123456789012345LL, 100000000000000LL};
  if (th) for (long long p = 100; p < 1000000000000000LL; p *= 10) { FSV.push_back(p - 1); FSV.push_back(p + 1); }
  // fractions with exactly k significant digits, k = 1..15: a lone 1 in digit k, k nines, and a ramp cut after k digits
  for (int k = 1; k <= 15; ++k) {
    if (!th && (k == 2 || k == 4 || k == 5 || k == 7 || k == 8 || k == 13)) continue;
    long long unit = 1;
    for (int i = k; i < 15; ++i) unit *= 10;
    FSV.push_back(unit);
    FSV.push_back(1000000000000000LL - unit);
    FSV.push_back(123456789012345LL / unit * unit + (123456789012345LL / unit % 10 == 0 ? unit : 0));
  }
  // instants whose civil years have 1..12 digits of either sign + the ends of the range
  std::vector<long long> years_t;
  const long long ys[] = {1, 9, 10, 99, 100, 999, 1000, 1969, 1970, 9999, 10000, 99999, 1234567, 99999999, 1000000000LL, 99999999999LL, 292277026596LL, 0, -1, -9, -10, -99, -100, -999, -1000, -9999, -10000, -1234567, -99999999999LL, -292277022657LL};
  for (long long y : ys) {
    for (int md = 0; md < 3; ++md) {
      i128 s = ref::secs_from_civil(Civil{y, md == 0 ? 1 : md == 1 ? 2 : 12, md == 0 ? 1 : md == 1 ? 29 : 31, md == 0 ? 0 : 23, md == 0 ? 0 : 59, md == 0 ? 0 : 58});
      if (md == 1 && !ref::is_leap(y)) s = ref::secs_from_civil(Civil{y, 2, 28, 12, 0, 0});
      if (s >= static_cast<i128>(INT64_MIN) + 200000 && s <= static_cast<i128>(INT64_MAX) - 200000) years_t.push_back(static_cast<long long>(s));
    }
  }
  const long long ends[] = {INT64_MIN, INT64_MIN + 1, INT64_MIN + 86400, INT64_MAX, INT64_MAX - 1, INT64_MAX - 86400, 0, -1, 1, 1000000000, -1000000000, (1LL << 31) - 1, 1LL << 31, 951782400LL /*2000-02-29*/, 1709251199LL};
  // a zone with a gap at many civil times, used as "any_zone" on the parse side
  const TZ* gapzone = nullptr;
  for (auto& z : g_zones) if (z.id == "America/New_York") gapzone = &z;
  long long idx = 0;
  for (size_t zi = 0; zi < g_zones.size(); ++zi) {
    const TZ& z = g_zones[zi];
    std::vector<long long> T(years_t);
    for (long long e : ends) T.push_back(e);
    for (long long p : z.probes) T.push_back(p);
    // offsets of exactly +-24h are a recorded known finding (KF-C07-1): keep it exhibited, do not flood
    const bool kf24 = (z.id == "fixed/86400" || z.id == "fixed/-86400");
    if (kf24) T.resize(4);
    std::vector<const TZ*> others = {&g_zones[0], &z};
    if (gapzone) others.push_back(gapzone);
    std::vector<std::string> fm_all = c07_formats(th, z.whole_minutes, true, nullptr), fm_noe4 = c07_formats(th, z.whole_minutes, false, nullptr);
    for (size_t ti = 0; ti < T.size(); ++ti) {
      if ((idx++ % nshards) != shard) continue;
      const long long t = T[ti];
      hz::begin_case(zi * 100000 + ti, "C07 zone " + z.id + " t=" + std::to_string(t));
      if (a.time_up()) { r.exhaustive = false; r.note("deadline in C07"); return; }
      const Civil cv = civil_of(z.tz.lookup(glue::tp_of(t)).cs);
      const bool e4 = cv.y >= -999 && cv.y <= 9999;
      const std::vector<std::string>& fm = e4 ? fm_all : fm_noe4;
      const char* ycls = cv.y < 0 ? "negative-year" : cv.y > 9999 ? "many-digit-year" : "plain-year";
      for (size_t fi = 0; fi < fm.size(); ++fi) {
        if (kf24 && fi >= 12) break;
        // every format at two sub-second values (rotating), every sub-second value at a rotating format
        c07_one(z, t, FSV[(fi + ti) % FSV.size()], fm[fi], others, r, ycls);
        c07_one(z, t, FSV[(fi * 7 + 3) % FSV.size()], fm[fi], others, r, ycls);
      }
      for (size_t k = 0; k < FSV.size() && !kf24; ++k) c07_one(z, t, FSV[k], fm[(k * 5 + ti) % fm.size()], others, r, "all-subseconds");
      c07_one(z, t, 0, "%s", others, r, "percent-s");
      c07_one(z, t, 0, "x%sy", others, r, "percent-s");
    }
  }
}

// ===========================================================================
// C08
static const char* kTok[] = {"%", "E", "O", ":", "*", "0", "1", "4", "9", "15", "18", "19", "1024", "1025", "Y", "m", "d", "e", "H", "M", "S", "z", "Z", "s", "T", "f", "U", "W", "u", "w", "a", "j", "c", "x", " ", "\xc3\xa9", ""};
static const int kNTok = 37;  // the last one is the NUL byte

struct Panel { const TZ* z; long long t; long long fs; };

static std::vector<Panel> c08_panel() {
  std::vector<Panel> P;
  auto zone = [&](const std::string& id) -> const TZ* { for (auto& z : g_zones) if (z.id == id) return &z; return &g_zones[0]; };
  P.push_back({zone("fixed/0"), 0, 0});
  P.push_back({zone("fixed/0"), INT64_MAX, 999999999999999LL});
  P.push_back({zone("fixed/0"), INT64_MIN, 1});
  P.push_back({zone("fixed/86400"), INT64_MAX, 0});
  P.push_back({zone("fixed/-86400"), INT64_MIN, 0});
  P.push_back({zone("fixed/-30"), -62167219200LL /* year 0 */, 500000000000000LL});
  P.push_back({zone("fixed/20700"), -62198755200LL /* year -1 */, 123456789012345LL});
  P.push_back({zone("America/New_York"), 253402300799LL /* 9999-12-31 */, 0});
  P.push_back({zone("America/New_York"), 253402300800LL + 86400 /* year 10000 */, 10});
  P.push_back({zone("Asia/Kathmandu"), 1709208000LL /* 2024-02-29 */, 999999999999999LL});
  P.push_back({zone("Africa/Monrovia"), -1830000000LL, 0});
  P.push_back({zone("fixed/3600"), 67767976233532799LL /* year INT_MAX+1900 */, 0});
  P.push_back({zone("fixed/0"), 67767976233446400LL - 86400LL * 366 * 2 /* just below tm_year saturation */, 0});
  P.push_back({zone("fixed/0"), -67768040609740800LL /* year INT_MIN+1900 region */, 0});
  P.push_back({zone("fixed/0"), 3 * 86400LL /* Sunday 1970-01-04 */, 0});
  P.push_back({zone("fixed/-3600"), 4 * 86400LL + 3599 /* Sunday 23:59:59 locally, Monday in UTC */, 999999999999999LL});
  P.push_back({zone("fixed/0"), -62135596800LL - 86400LL * 200 /* year 0, mid June */, 5});
  P.push_back({zone("fixed/0"), 1483228800LL /* 2017-01-01, a Sunday: %U = 01, %W = 00 */, 0});
  P.push_back({zone("fixed/0"), 1514678400LL /* 2017-12-31, a Sunday: %U = 53 */, 0});
  // the exact years at which the broken-down year handed to the C library saturates (tm_year = year - 1900 must fit an int)
  for (int d = -1; d <= 1; ++d) {
    const i128 hi = ref::secs_from_civil(Civil{static_cast<i128>(INT_MAX) + 1900 + d, 6, 15, 12, 0, 0});
    const i128 lo = ref::secs_from_civil(Civil{static_cast<i128>(INT_MIN) + 1900 + d, 6, 15, 12, 0, 0});
    P.push_back({zone("fixed/0"), static_cast<long long>(hi), 0});
    P.push_back({zone("fixed/0"), static_cast<long long>(lo), 0});
  }
  return P;
}

static ref::Fields fields_of(const TZ& z, long long t, long long fs) {
  const auto al = z.tz.lookup(glue::tp_of(t));
  ref::Fields f;
  f.cs = civil_of(al.cs); f.offset = al.offset; f.is_dst = al.is_dst; f.abbr = al.abbr; f.unix_seconds = t; f.fs = fs;
  return f;
}

static void c08_one(const std::string& fmt, const Panel& p, hz::Result& r) {
  long long raw[2] = {p.t, p.fs};
  hz::set_raw(raw, 2);
  const std::string got = cctz::detail::format(fmt, glue::tp_of(p.t), FS(p.fs), p.z->tz);
  const std::string again = cctz::detail::format(fmt, glue::tp_of(p.t), FS(p.fs), p.z->tz);
  r.count("evaluations");
  std::vector<std::string> ra = {"--fmt", hz::hex(fmt), "--zone", p.z->id, "--t", std::to_string(p.t), "--fs", std::to_string(p.fs)};
  if (got != again) { r.violation("C08:nondeterministic", "format(" + hz::jstr(fmt) + ") gives different text on a second call", ra); return; }
  const ref::FormatRef want = ref::format_ref(fmt, fields_of(*p.z, p.t, p.fs));
  if (!want.wellformed) { r.cls("C08:malformed(safety-only)"); return; }
  if (want.dont_care) { r.cls("C08:c-library-run-beyond-growth-limit(dont-care)"); return; }
  r.cls("C08:rendered");
  r.count("rendered");
  if (got != want.out)
    r.violation("C08:render", "zone " + p.z->id + " t=" + std::to_string(p.t) + " fs=" + std::to_string(p.fs) + " format(" + hz::jstr(fmt) + ") = " + hz::jstr(got) + " expected " + hz::jstr(want.out), ra);
}

static void c08_run(int shard, int nshards, const hz::Args& a, hz::Result& r) {
  const int L = a.thorough() ? 4 : 3;
  const std::vector<Panel> P = c08_panel();
  long long total = 1;
  long long idx = 0;
  for (int len = 0; len <= L; ++len) {
    total = 1;
    for (int i = 0; i < len; ++i) total *= kNTok;
    for (long long v = 0; v < total; ++v) {
      if ((idx++ % nshards) != shard) continue;
      std::string fmt;
      long long x = v;
      for (int i = 0; i < len; ++i) { int k = static_cast<int>(x % kNTok); x /= kNTok; if (k == kNTok - 1) fmt.push_back('\0'); else fmt += kTok[k]; }
      if ((v & 0x3ff) == 0) { hz::begin_case(len * 100000000LL + v, "C08 fmt " + hz::jstr(fmt)); if (a.time_up()) { r.exhaustive = false; r.note("deadline in C08 at length " + std::to_string(len)); return; } }
      for (const Panel& p : P) c08_one(fmt, p, r);
    }
  }
  // (b) all sequences of up to 3 UNITS (whole specifiers, escapes, literals that look like conversion
  //     letters, dangling prefixes): adjacency of strftime-delegated runs, doubled percents and
  //     library-defined specifiers, which raw 3-token strings cannot reach
  {
    static const char* kUnit[] = {"x", "s", "Y", "E", ":", "z", "S", " ", "\xc3\xa9", "%%", "%%%%",
                                  "%Y", "%m", "%d", "%e", "%H", "%M", "%S", "%z", "%Z", "%s", "%Ez", "%E*z", "%:z", "%::z", "%:::z", "%E3S", "%E*S", "%E0f", "%E*f", "%E4Y", "%ET", "%U", "%W", "%u", "%w", "%E15S", "%E18f", "%E19S", "%E33f", "%E34S", "%E1024f",
                                  "%a", "%b", "%j", "%c", "%x", "%y", "%p", "%I", "%Ey", "%Od", "%_H",
                                  "%", "%E", "%:", "%E*", "%E4", "%::"};
    const int nu = static_cast<int>(sizeof(kUnit) / sizeof(kUnit[0]));
    const size_t npanel = a.thorough() ? P.size() : 4;
    for (int len = 2; len <= 3; ++len) {
      long long tot = 1;
      for (int i = 0; i < len; ++i) tot *= nu;
      for (long long v = 0; v < tot; ++v) {
        if ((idx++ % nshards) != shard) continue;
        std::string fmt;
        long long x = v;
        for (int i = 0; i < len; ++i) { fmt += kUnit[x % nu]; x /= nu; }
        if ((v & 0x3ff) == 0) { hz::begin_case(900000000LL + v, "C08 units " + hz::jstr(fmt)); if (a.time_up()) { r.exhaustive = false; r.note("deadline in C08 unit sequences"); return; } }
        for (size_t pi = 0; pi < npanel; ++pi) c08_one(fmt, P[(pi * 3 + static_cast<size_t>(v)) % P.size()], r);
      }
    }
  }
  // documented specifiers each alone and in the RFC3339/RFC1123 combinations, on EVERY zone and probe
  if (shard == 0) {
    const char* docs[] = {"%Y", "%m", "%d", "%e", "%H", "%M", "%S", "%z", "%Z", "%s", "%%", "%Ez", "%E*z", "%:z", "%::z", "%:::z", "%E0S", "%E3S", "%E15S", "%E16S", "%E18S", "%E19S", "%E20f", "%E33S", "%E34f", "%E100S", "%E1024f", "%E*S", "%E3f", "%E*f", "%E4Y", "%ET", "%U", "%W", "%u", "%w",
                          "%Y-%m-%d%ET%H:%M:%E*S%Ez", "%a, %d %b %E4Y %H:%M:%S %z", "%A %B %j %y %C %G %g %V %D %F %T %R %r %p %I %l %k %h %n %t %x %X %c", "100%% %%Y %%%Y %%%%Y", "%_H %-d %010Y %^a %#Z", "%Ey %EC %Ex %EX %Ec %Od %Om %OH"};
    const long long fsv[] = {0, 1, 999999999999999LL, 120000000000000LL};
    for (auto& z : g_zones) {
      std::vector<long long> T = z.probes;
      const long long more[] = {0, 1700000000LL, -1, INT64_MAX, INT64_MIN, 253402300799LL, -62135596801LL};
      for (long long m : more) T.push_back(m);
      for (size_t ti = 0; ti < T.size(); ++ti) for (const char* d : docs) c08_one(d, Panel{&z, T[ti], fsv[ti % 4]}, r);
    }
  }
}

// ===========================================================================
// C09
struct Resolver { const TZ* z; };
static i128 resolve_cb(void* ctx, i128 local) {
  const TZ* z = static_cast<Resolver*>(ctx)->z;
  if (z->id.compare(0, 6, "fixed/") == 0) return local - atoi(z->id.c_str() + 6);
  // real zone: the library's own 'pre' reading (validated by C02); where that saturates, the
  // unclamped instant is reconstructed with the offset in force at that end of the range
  Civil c = ref::civil_from_secs(local);
  if (c.y < static_cast<i128>(INT64_MIN) || c.y > static_cast<i128>(INT64_MAX)) return local;
  cctz::civil_second cs(static_cast<long long>(c.y), c.m, c.d, c.hh, c.mm, c.ss);
  const auto pre = z->tz.lookup(cs).pre;
  const auto mx = cctz::time_point<cctz::seconds>::max(), mn = cctz::time_point<cctz::seconds>::min();
  if (pre == mx) return local - z->tz.lookup(mx).offset;
  if (pre == mn) return local - z->tz.lookup(mn).offset;
  return glue::unix_of(pre);
}

static void c09_one(const std::string& fmt, const std::string& input, const TZ& z, hz::Result& r, const char* cls, const i128* generator_expect = nullptr) {
  cctz::time_point<cctz::seconds> tp;
  FS fs(-7);
  std::string err;
  const bool ok = cctz::detail::parse(fmt, input, z.tz, &tp, &fs, &err);
  r.count("evaluations");
  Resolver rv{&z};
  const ref::ParseRef want = ref::parse_ref(fmt, input, resolve_cb, &rv);
  std::vector<std::string> ra = {"--pfmt", hz::hex(fmt), "--pin", hz::hex(input), "--zone", z.id};
  if (want.dont_care) { r.cls(std::string("C09:") + cls + ":dont-care(safety-only)"); return; }
  if (generator_expect && (!want.ok || want.t != *generator_expect)) {
    r.count("oracle_inconsistent");
    r.note("reference parse disagrees with the generator's own expectation for fmt=" + fmt + " input=" + input + " (" + want.why + ")");
    return;
  }
  r.cls(std::string("C09:") + cls + (want.ok ? ":accept" : ":reject"));
  if (ok != want.ok) {
    r.violation(std::string("C09:") + (ok ? "accepted-invalid" : "rejected-valid"), "parse(" + hz::jstr(fmt) + ", " + hz::jstr(input) + ", " + z.id + ") = " + (ok ? "true t=" + std::to_string(glue::unix_of(tp)) : "false (" + err + ")") + "; reference: " + (want.ok ? "accept t=" + s128(want.t) : "reject (" + want.why + ")"), ra);
    return;
  }
  if (ok && (static_cast<i128>(glue::unix_of(tp)) != want.t || fs.count() != want.fs))
    r.violation("C09:wrong-instant", "parse(" + hz::jstr(fmt) + ", " + hz::jstr(input) + ", " + z.id + ") = t " + std::to_string(glue::unix_of(tp)) + " fs " + std::to_string(fs.count()) + "; reference t " + s128(want.t) + " fs " + std::to_string(want.fs), ra);
}

static std::string ys(i128 y) { return s128(y); }
static std::string p2(int v) { return ref::pad2(v); }

static void c09_edits(const std::string& fmt, const std::string& in, const TZ& z, hz::Result& r) {
  const std::string sigma = std::string("059-+:. TZa") + "\x80";
  for (size_t i = 0; i <= in.size(); ++i) {
    if (i < in.size()) { std::string d = in; d.erase(i, 1); c09_one(fmt, d, z, r, "edit-delete"); }
    for (char c : sigma) {
      if (i < in.size() && in[i] != c) { std::string e = in; e[i] = c; c09_one(fmt, e, z, r, "edit-replace"); }
      std::string f = in; f.insert(i, 1, c); c09_one(fmt, f, z, r, "edit-insert");
    }
  }
}

static void c09_run(int shard, int nshards, const hz::Args& a, hz::Result& r) {
  const TZ* utc = &g_zones[0];
  auto zone = [&](const std::string& id) -> const TZ* { for (auto& z : g_zones) if (z.id == id) return &z; return utc; };
  long long idx = 0;
  auto mine = [&]() { return (idx++ % nshards) == shard; };
  // (a) field boundary product with a full RFC3339-like format, all offsets
  {
    const i128 years[] = {static_cast<i128>(INT64_MIN), -292277022657LL, -10000, -1, 0, 1, 1970, 9999, 10000, 292277026596LL, static_cast<i128>(INT64_MAX)};
    const int mons[] = {1, 2, 4, 12}, days[] = {1, 28, 29, 30, 31}, hours[] = {0, 23}, mins[] = {0, 59}, secs[] = {0, 59, 60};
    const char* offs[] = {"+00:00", "-00:00", "+00:00:01", "-00:00:01", "+23:59:59", "-23:59:59", "Z", "z", "+05:45", "-0330", "+01"};
    const char* fracs[] = {"", ".5", ".000000000000001", ".999999999999999", ".1234567890123456789", ".0"};
    const std::string fmt = "%Y-%m-%dT%H:%M:%E*S%E*z";
    int fr = 0;
    for (i128 y : years) for (int mo : mons) for (int d : days) for (int h : hours) for (int mi : mins) for (int s : secs) for (const char* o : offs) {
      if (!mine()) continue;
      const char* frac = fracs[(fr++) % 6];
      const std::string in = ys(y) + "-" + p2(mo) + "-" + p2(d) + "T" + p2(h) + ":" + p2(mi) + ":" + p2(s) + frac + o;
      c09_one(fmt, in, *utc, r, "boundary-product");
      c09_one(fmt, in, *zone("America/New_York"), r, "boundary-product");
      // the same fields without an offset field: read in a fixed zone / a real zone
      const std::string in2 = in.substr(0, in.size() - strlen(o));
      c09_one("%Y-%m-%dT%H:%M:%E*S", in2, *zone((fr % 2) ? "fixed/-86399" : "fixed/86400"), r, "boundary-product");
      if (y > -100000 && y < 100000) c09_one("%Y-%m-%dT%H:%M:%E*S", in2, *zone("Australia/Lord_Howe"), r, "boundary-product");
    }
  }
  // (a') every documented specifier with its accept/reject boundary values, alone
  {
    struct SV { const char* fmt; std::vector<std::string> vals; };
    const std::vector<SV> sv = {
      {"%Y", {"0", "1", "-1", "-0", "+1", "1970", "12345678901", "-12345678901", "9223372036854775807", "9223372036854775808", "-9223372036854775808", "-9223372036854775809", "", " 5", "5 ", "5x", "0005", "--5"}},
      {"%m", {"0", "1", "01", "9", "12", "13", "-1", "001", "1x", "", "00"}},
      {"%d", {"0", "1", "01", "28", "29", "30", "31", "32", "-1", "001", ""}},
      {"%e", {"1", " 1", "31", "32", "0"}},
      {"%H", {"0", "00", "9", "23", "24", "-1", "000", ""}},
      {"%M", {"0", "00", "59", "60", "-1", "5", "005"}},
      {"%S", {"0", "00", "59", "60", "61", "-1", "5"}},
      {"%E*S", {"00", "59", "60", "61", "59.", "59.5", "59.999999999999999", "59.9999999999999999", "60.5", "5.5", "59.x", "59,5"}},
      {"%E3S", {"00", "59.123", "59.1234", "59.", "60.999", "60", "61", "61.5", "-1", "5"}},
      {"%S%E*f", {"59", "595", "59123456789012345678", "5"}},
      {"%S.%E3f", {"59.123", "59.", "59.x", "59.1234567"}},
      {"%z", {"+0000", "-0000", "+2359", "+2400", "+0060", "+000000", "+235959", "+236000", "Z", "z", "+00", "+0", "0000", "+00:00", "+1", "-2359", "+0000 ", "+12345"}},
      {"%Ez", {"+00:00", "-00:00", "+23:59", "+24:00", "+00:60", "+00:00:00", "+23:59:59", "+23:59:60", "Z", "z", "+00", "+0000", "+000000", "+00:0", "+0:00", "00:00", "+00:00:", "+00::00", "+00:00:0"}},
      {"%E*z", {"+00:00:00", "-23:59:59", "+05:45", "+05", "+0545", "Z", "+05:45:5", "+05:45:60"}},
      {"%:z", {"+01:00", "+0100", "-01:30:15", "x"}},
      {"%::z", {"+01:00:00", "-01:30:15", "+01", "Z"}},
      {"%:::z", {"+01", "+01:30", "-01:30:15", "z"}},
      {"%Z", {"UTC", "EST", "+0500", "", " ", "A B", "x"}},
      {"%s", {"0", "1", "-1", "-0", "9223372036854775807", "9223372036854775808", "-9223372036854775808", "-9223372036854775809", "1234567890", "", "1e3", "+5"}},
      {"%%", {"%", "%%", "", "x"}},
      {"%ET", {"T", "t", "x", "", "TT"}},
      {"%E4Y", {"2000", "0000", "0001", "9999", "-999", "-001", "-000", "999", "10000", "99999", "-99", "-9999", "20 0", " 200", "+200"}},
      {"%Y %U %w", {"2017 00 0", "2017 01 0", "2017 53 6", "2017 54 0", "2016 00 0", "2016 52 6", "2015 10 7", "2015 10 -1", "-1 00 0", "9223372036854775807 53 6", "-9223372036854775808 00 0", "2017 007 3"}},
      {"%Y %W %u", {"2017 00 1", "2017 01 7", "2018 00 1", "2018 53 7", "2018 54 1", "2015 10 0", "2015 10 8", "9223372036854775807 53 7", "-9223372036854775808 00 1"}},
      {"%Y-%m-%d", {"2015-02-28", "2015-02-29", "2016-02-29", "2016-02-30", "2015-04-31", "2015-09-31", "2015-12-31", "1900-02-29", "2000-02-29", "2015-2-3", "2015-02-3x", "-4-02-29", "-1-02-29", "2015-13-01", "2015-00-10", "2015-01-00"}},
      {"%d %b %Y", {"31 Sep 2015", "30 Sep 2015", "01 jan 1", "29 Feb 1900", "29 Feb 2000", "1 January 2015"}},
      {"%I:%M %p", {"12:00 AM", "12:00 PM", "01:30 pm", "11:59 PM", "13:00 PM", "00:00 AM"}},
      {" %Y  %m ", {"2015 3", "  2015   3   ", "20153", "2015\t\n3", "2015 3 x"}},
      // which hour specifier came LAST decides whether %p applies: %I / %OI / %l / %r make it a 12-hour clock, %H / %OH / %k / %T / %R / %c / %X / %Ec / %EX a
      // 24-hour one; other E/O-modified specifiers must leave that state alone
      {"%I %p %Ey", {"11 PM 70", "12 AM 70", "01 AM 99"}}, {"%Ey %I %p", {"70 11 PM", "70 12 AM"}}, {"%I %p %EC", {"11 PM 19", "12 PM 20"}}, {"%I %p %Od", {"11 PM 07", "12 AM 31"}},
      {"%p %I %Om %Oe", {"PM 11 02 29", "AM 12 12  1"}}, {"%OI %p", {"11 PM", "12 AM", "12 PM", "13 PM"}}, {"%OH %p", {"11 PM", "23 PM", "00 AM"}}, {"%I %p %OH", {"11 PM 05", "11 PM 23"}}, {"%H %OI %p", {"05 11 PM", "23 12 AM"}},
      {"%l %p", {"11 PM", " 1 AM", "12 AM"}}, {"%I %p %OM %OS", {"11 PM 59 59", "12 AM 00 60"}}, {"%I %p %Ex", {"11 PM 01/02/70"}}, {"%EX %p", {"11:22:33 PM"}}, {"%I %p %EX", {"01 PM 11:22:33"}},
      {"%r", {"11:22:33 PM", "12:00:00 AM"}}, {"%T %p", {"11:22:33 PM"}}, {"%I %p %T", {"01 PM 11:22:33"}}, {"%R %I %p", {"23:59 11 PM", "23:59 12 AM"}},
    };
    for (auto& s : sv) for (auto& v : s.vals) {
      if (!mine()) continue;
      c09_one(s.fmt, v, *utc, r, "specifier-boundaries");
      c09_one(s.fmt, " " + v + " ", *utc, r, "specifier-boundaries");
      c09_one(s.fmt, v, *zone("fixed/-86399"), r, "specifier-boundaries");
      c09_one(std::string("x") + s.fmt + "y", "x" + v + "y", *zone("Asia/Kathmandu"), r, "specifier-boundaries");
    }
  }
  // (b) every single edit of accepted (fmt, input) pairs
  {
    const std::pair<const char*, const char*> seeds[] = {
      {"%Y-%m-%dT%H:%M:%E*S%Ez", "2015-09-30T23:59:60.5-07:00"}, {"%Y-%m-%d %H:%M:%S", "2016-02-29 12:34:56"}, {"%a, %d %b %E4Y %H:%M:%S %z", "Thu, 01 Jan 1970 00:00:00 +0000"},
      {"%E4Y%m%d", "-9991231"}, {"%s", "-9223372036854775808"}, {"%Y %U %w %H", "2017 01 0 23"}, {"%H:%M:%E3S %::z", "23:59:59.999 +23:59:59"}, {"%d.%m.%Y %I %p", "31.12.9999 12 AM"},
      {"%Y-%m-%d %Z", "292277026596-12-04 UTC"}, {"%Y%%%m", "1%12"}, {"%ET%E*f%ET", "T123t"}, {"%m/%d/%Y %H:%M %:::z", "02/29/2000 00:00 -01:30"},
      {"%Y-%m-%d %H:%M:%E*S %E*z", "-292277022657-01-27 08:29:52.000000000000001 +00:00:00"}, {"%Y %W %u", "9223372036854775807 52 7"}, {"%H:%M:%S %Ez %Y-%m-%d", "00:00:60 +00:01 1969-12-31"},
      {"%e %B %Y %l %p", " 1 February 2000 11 PM"}, {"%E15S|%E0f|%E*f", "59.123456789012345||0"}, {"%z%Z%%", "-0000GMT%"}, {"%Y-%m-%dT%H:%M:%S%:z", "10000-01-01T00:00:00+00:00:00"},
    };
    for (auto& sd : seeds) {
      if (!mine()) continue;
      hz::begin_case(7000000 + idx, std::string("C09 edits of ") + sd.second);
      c09_one(sd.first, sd.second, *utc, r, "edit-seed");
      c09_edits(sd.first, sd.second, *utc, r);
      c09_edits(sd.first, sd.second, *zone("fixed/20700"), r);
      c09_edits(sd.first, sd.second, *zone("America/New_York"), r);
    }
  }
  // (c) zone interaction: no offset field, civil times that are skipped / repeated / near the ends
  {
    struct ZI { const char* zone; const char* in; };
    const ZI zi[] = {{"America/New_York", "2011-03-13 02:30:00"}, {"America/New_York", "2011-03-13 01:59:59"}, {"America/New_York", "2011-03-13 03:00:00"}, {"America/New_York", "2011-11-06 01:30:00"},
                     {"America/New_York", "2011-11-06 00:59:59"}, {"America/New_York", "2011-11-06 02:00:00"}, {"Australia/Lord_Howe", "2011-10-02 02:15:00"}, {"Australia/Lord_Howe", "2011-04-03 01:45:00"},
                     {"Pacific/Apia", "2011-12-30 12:00:00"}, {"Asia/Kathmandu", "1986-01-01 00:07:00"}, {"Africa/Monrovia", "1972-01-07 00:20:00"}, {"America/New_York", "2411-03-13 02:30:00"}, {"America/New_York", "12345-11-06 01:30:00"},
                     {"fixed/-86400", "292277026596-12-05 15:30:07"}, {"fixed/-86400", "292277026596-12-05 15:30:08"}, {"fixed/86400", "292277026596-12-04 15:30:07"}, {"fixed/86400", "292277026596-12-03 15:30:08"},
                     {"fixed/86400", "-292277022657-01-28 08:29:52"}, {"fixed/86400", "-292277022657-01-28 08:29:51"}, {"fixed/-86400", "-292277022657-01-26 08:29:52"}, {"fixed/-86400", "-292277022657-01-26 08:29:51"},
                     {"fixed/0", "292277026596-12-04 15:30:07"}, {"fixed/0", "292277026596-12-04 15:30:08"}, {"fixed/0", "-292277022657-01-27 08:29:52"}, {"fixed/0", "-292277022657-01-27 08:29:51"},
                     {"fixed/3599", "292277026596-12-04 16:30:06"}, {"fixed/3599", "292277026596-12-04 16:30:07"}, {"fixed/-1", "292277026596-12-04 15:30:06"}, {"fixed/-1", "292277026596-12-04 15:30:07"},
                     {"fixed/-30", "292277026596-12-04 15:29:37"}, {"fixed/-30", "292277026596-12-04 15:29:38"}, {"fixed/20700", "-292277022657-01-27 14:14:52"}, {"fixed/20700", "-292277022657-01-27 14:14:51"}};
    for (auto& z : zi) {
      if (!mine()) continue;
      c09_one("%Y-%m-%d %H:%M:%S", z.in, *zone(z.zone), r, "zone-interaction");
      c09_one("%Y-%m-%d %H:%M:%E*S", std::string(z.in) + ".25", *zone(z.zone), r, "zone-interaction");
      c09_one("%Y-%m-%d %H:%M:%S%z", std::string(z.in) + "+0000", *zone(z.zone), r, "zone-interaction");
      c09_one("%Y-%m-%d %H:%M:%S%Ez", std::string(z.in) + "-23:59", *zone(z.zone), r, "zone-interaction");
      c09_one("%Y-%m-%d %H:%M:%S%E*z", std::string(z.in) + "+23:59:59", *zone(z.zone), r, "zone-interaction");
    }
  }
  // (c2) every zone's recorded transitions: the civil seconds displayed just before / at each one, the
  //      ":60" spelling of a second-59 (rolls INTO the transition), and a second inside the gap/overlap
  {
    for (size_t zi = 0; zi < g_zones.size(); ++zi) {
      const TZ& z = g_zones[zi];
      if (z.probes.empty()) continue;
      for (size_t pi = 0; pi < z.probes.size(); ++pi) {
        if (!mine()) continue;
        const long long t = z.probes[pi];
        const auto al = z.tz.lookup(glue::tp_of(t));
        const Civil c = civil_of(al.cs);
        if (c.y < -9999 || c.y > 99999) continue;
        for (int variant = 0; variant < 4; ++variant) {
          Civil v = c;
          if (variant == 1) { if (c.ss != 59) continue; v.ss = 60; }
          if (variant == 2) v = ref::civil_from_secs(ref::secs_from_civil(c) + 1800);   // half an hour later on the wall clock
          if (variant == 3) v = ref::civil_from_secs(ref::secs_from_civil(c) - 1800);
          char txt[80];
          snprintf(txt, sizeof txt, "%lld-%02d-%02d %02d:%02d:%02d", static_cast<long long>(v.y), v.m, v.d, v.hh, v.mm, v.ss);
          c09_one("%Y-%m-%d %H:%M:%S", txt, z, r, variant == 1 ? "zone-transition-leap60" : "zone-transition");
          c09_one("%Y-%m-%d %H:%M:%E*S", std::string(txt) + ".75", z, r, variant == 1 ? "zone-transition-leap60" : "zone-transition");
          if (variant <= 1) c09_one("%Y-%m-%d %H:%M:%S %Ez", std::string(txt) + " +01:30", z, r, "zone-transition");
        }
      }
    }
  }
  // (d) safety: format strings from C08's token alphabet (length <= 2) x a panel of inputs; outcome
  //     checked only where the reference has an opinion ("true => reference also matches")
  {
    const char* inputs[] = {"", " ", "0", "1", "-1", "60", "1970", "2015-02-29", "12:34:56", "+01:00", "Z", "T", "%", "Thu", "Jan", "PM", "59.5", "9223372036854775807", "-9223372036854775808", "99999999999999999999",
                            "0000", "-999", "1 1", "\x80", "é", "01", "1024", "15", "+235959", "-00:00:01", "  7  ", "07x", "x07", "00.000000000000000001", "24", "61", "53", "7", "366", "000"};
    long long total = 1;
    for (int len = 0; len <= (a.thorough() ? 3 : 2); ++len) {
      total = 1;
      for (int i = 0; i < len; ++i) total *= kNTok;
      for (long long v = 0; v < total; ++v) {
        if (!mine()) continue;
        std::string fmt;
        long long x = v;
        for (int i = 0; i < len; ++i) { int k = static_cast<int>(x % kNTok); x /= kNTok; if (k == kNTok - 1) fmt.push_back('\0'); else fmt += kTok[k]; }
        for (const char* in : inputs) c09_one(fmt, in, *utc, r, "safety-panel");
      }
    }
  }
}

int main(int argc, char** argv) {
  hz::Args a = hz::parse_args(argc, argv);
  g_prop = a.prop;
  g_repo = a.repo;
  if (!ref::self_check()) return 2;
  setlocale(LC_ALL, "C");
  glue::install_factory();
  build_zones(a.thorough());
  hz::Result total;
  auto zone = [&](const std::string& id) -> const TZ* { for (auto& z : g_zones) if (z.id == id) return &z; return nullptr; };
  if (a.has("--rt")) {
    size_t p = 0; while (a.extra[p] != "--rt") ++p;
    const TZ* z = zone(a.extra[p + 1]);
    if (z) { std::vector<const TZ*> o = {&g_zones[0], z}; c07_one(*z, atoll(a.extra[p + 2].c_str()), atoll(a.extra[p + 3].c_str()), hz::unhex(a.extra[p + 4]), o, total, "replay"); }
    return hz::finish(a, total);
  }
  if (a.has("--fmt")) {
    const TZ* z = zone(a.get("--zone"));
    if (z) c08_one(hz::unhex(a.get("--fmt")), Panel{z, atoll(a.get("--t").c_str()), atoll(a.get("--fs").c_str())}, total);
    return hz::finish(a, total);
  }
  if (a.has("--pfmt")) {
    const TZ* z = zone(a.get("--zone"));
    if (z) c09_one(hz::unhex(a.get("--pfmt")), hz::unhex(a.get("--pin")), *z, total, "replay");
    return hz::finish(a, total);
  }
  const int nshards = 128;
  hz::PoolOpts po; po.workers = a.workers;
  hz::run_shards(nshards, po, a.workdir, [&](const hz::ShardCtl& ctl, hz::Result& r) {
    hz::begin_case(ctl.shard, g_prop + " shard " + std::to_string(ctl.shard));
    if (g_prop == "C07") c07_run(ctl.shard, nshards, a, r);
    else if (g_prop == "C08") c08_run(ctl.shard, nshards, a, r);
    else c09_run(ctl.shard, nshards, a, r);
  }, &total);
  if (g_prop == "C07") total.sample("{\"zone\":\"fixed/-30\",\"t\":-62167219200,\"fs\":500000000000000,\"fmt\":\"%E*z_%Y %U %w_%H%M%S.%E*f\",\"law\":\"parse(fmt, format(fmt,t,fs,tz), any) == (true,t,fs)\"}");
  if (g_prop == "C08") total.sample("{\"fmt\":\"%E1025S\",\"panel\":\"14 (zone,instant,fs) triples incl. min(), max(), year 0/-1/9999/10000, offsets +-24h and -30 s\"}");
  if (g_prop == "C09") total.sample("{\"fmt\":\"%Y-%m-%dT%H:%M:%E*S%E*z\",\"input\":\"2016-02-29T23:59:60.5-23:59:59\",\"expected\":\"accept; :60 rolls to the next minute, fraction dropped\"}");
  return hz::finish(a, total);
}
