// E1 harness for C18: sub-second time points floor toward the past.
// Exhaustive over the narrow representations (int8/int16), boundary-dense for
// the wide ones; oracle = 128-bit floor division.
#include <climits>

#include "../common/harness.h"
#include "../common/impl_glue.h"
#include "../common/ref_civil.h"

using ref::i128;
using ref::Civil;

static std::string s128(i128 v) { return ref::to_string(v); }
static Civil civil_of(const cctz::civil_second& c) { return Civil{c.year(), c.month(), c.day(), c.hour(), c.minute(), c.second()}; }

static std::string frac_digits(i128 fs, int n) {  // first n of the 15 femtosecond digits (zero padded beyond 15)
  char b[32];
  snprintf(b, sizeof b, "%015lld", static_cast<long long>(fs));
  std::string d(b);
  if (n <= 15) return d.substr(0, n);
  return d + std::string(n - 15, '0');
}
static std::string strip_zeros(std::string d) {
  while (!d.empty() && d.back() == '0') d.pop_back();
  return d;
}
static std::string two(int v) { char b[8]; snprintf(b, sizeof b, "%02d", v); return b; }
static std::string ymd_hm(const Civil& c) {
  char b[64];
  snprintf(b, sizeof b, "-%02d-%02d %02d:%02d:", c.m, c.d, c.hh, c.mm);
  return s128(c.y) + b;
}

template <typename Rep, typename Period>
struct DurName { static std::string get(); };

template <typename D>
static void check_tp(const char* dname, long long count, const cctz::time_zone& tz, int tzoff, hz::Result& r) {
  typedef typename D::rep Rep;
  typedef typename D::period P;
  const i128 num = P::num, den = P::den;
  const i128 total_num = static_cast<i128>(count) * num;       // instant = total_num / den seconds
  const i128 sec = ref::floordiv(total_num, den);
  const i128 rem_num = total_num - sec * den;                   // 0 <= rem_num < den, in units of 1/den s
  if (sec < static_cast<i128>(INT64_MIN) || sec > static_cast<i128>(INT64_MAX)) { r.count("skipped_second_count_unrepresentable"); return; }
  const i128 fs = (rem_num * static_cast<i128>(1000000000000000LL)) / den;  // truncated femtoseconds
  const cctz::time_point<D> tp{D{static_cast<Rep>(count)}};
  std::vector<std::string> ra = {"--dur", dname, "--count", std::to_string(count)};
  const char* cls = count < 0 ? (rem_num != 0 ? "neg-nonmultiple" : "neg-multiple") : (rem_num != 0 ? "pos-nonmultiple" : "pos-multiple");
  r.cls(std::string("C18:") + dname + ":" + cls);
  // split_seconds
  auto sp = cctz::detail::split_seconds(tp);
  r.count("evaluations");
  if (glue::unix_of(sp.first) != static_cast<long long>(sec)) {
    r.violation(std::string("C18:split:") + dname, std::string(dname) + " count " + std::to_string(count) + ": split_seconds gives second " + std::to_string(glue::unix_of(sp.first)) + " expected floor " + s128(sec), ra);
    return;
  }
  // a tick that is a non-integral number of seconds (ratio<5,2>): the interface returns the remainder in ticks of D,
  // which cannot express it; only the floored second (split, lookup, convert) is checked for such types
  const bool odd_ratio = (num != 1 && den != 1);
  const auto subfs = std::chrono::duration_cast<cctz::detail::femtoseconds>(sp.second).count();
  if (!odd_ratio && (subfs < 0 || static_cast<i128>(subfs) != fs)) {
    r.violation(std::string("C18:split-remainder:") + dname, std::string(dname) + " count " + std::to_string(count) + ": sub-second remainder " + std::to_string(subfs) + " fs expected " + s128(fs), ra);
    return;
  }
  // lookup / convert use the floored second
  const Civil want = ref::civil_from_secs(sec + tzoff);
  const auto al = tz.lookup(tp);
  const cctz::civil_second cv = cctz::convert(tp, tz);
  r.count("evaluations", 2);
  if (civil_of(al.cs) != want || civil_of(cv) != want) {
    r.violation(std::string("C18:lookup:") + dname, std::string(dname) + " count " + std::to_string(count) + ": lookup/convert give " + ref::civil_str(civil_of(al.cs)) + " expected " + ref::civil_str(want), ra);
    return;
  }
  if (odd_ratio) return;
  // format: full precision, every digit count, %E*f
  const std::string head = ymd_hm(want);
  const std::string all = strip_zeros(frac_digits(fs, 15));
  {
    const std::string got = cctz::format("%Y-%m-%d %H:%M:%E*S", tp, tz);
    const std::string exp = head + two(want.ss) + (all.empty() ? "" : "." + all);
    r.count("evaluations");
    if (got != exp) { r.violation(std::string("C18:format-E*S:") + dname, std::string(dname) + " count " + std::to_string(count) + ": %E*S gives '" + got + "' expected '" + exp + "'", ra); return; }
  }
  {
    const std::string got = cctz::format("%E*f|%S", tp, tz);
    const std::string exp = (all.empty() ? "0" : all) + "|" + two(want.ss);
    r.count("evaluations");
    if (got != exp) { r.violation(std::string("C18:format-E*f:") + dname, std::string(dname) + " count " + std::to_string(count) + ": %E*f|%S gives '" + got + "' expected '" + exp + "'", ra); return; }
  }
  static const int ns[] = {0, 1, 2, 3, 6, 9, 12, 14, 15, 16, 18, 19, 25, 33, 34, 100};  // beyond 18 the library renders 18 digits
  for (int n : ns) {
    const std::string f1 = "%E" + std::to_string(n) + "S", f2 = "%E" + std::to_string(n) + "f";
    const std::string g1 = cctz::format(f1, tp, tz), g2 = cctz::format(f2, tp, tz);
    const std::string d = frac_digits(fs, n > 18 ? 18 : n);
    const std::string e1 = two(want.ss) + (n ? "." + d : ""), e2 = d;
    r.count("evaluations", 2);
    if (g1 != e1 || g2 != e2) { r.violation(std::string("C18:format-E#:") + dname, std::string(dname) + " count " + std::to_string(count) + ": " + f1 + " gives '" + g1 + "' expected '" + e1 + "'; " + f2 + " gives '" + g2 + "' expected '" + e2 + "'", ra); return; }
  }
}

// parse into a target of whole seconds or coarser
template <typename D>
static void check_parse(const char* dname, long long sec, hz::Result& r) {
  typedef typename D::rep Rep;
  const i128 Num = D::period::num;
  const i128 want = ref::floordiv(sec, Num);
  const bool fits = want >= static_cast<i128>(std::numeric_limits<Rep>::min()) && want <= static_cast<i128>(std::numeric_limits<Rep>::max());
  const cctz::time_zone utc = cctz::utc_time_zone();
  std::vector<std::string> ra = {"--pdur", dname, "--sec", std::to_string(sec)};
  const Civil c = ref::civil_from_secs(sec);
  char txt[80];
  snprintf(txt, sizeof txt, "%lld-%02d-%02d %02d:%02d:%02d", static_cast<long long>(c.y), c.m, c.d, c.hh, c.mm, c.ss);
  const std::pair<std::string, std::string> inputs[2] = {{"%s", std::to_string(sec)}, {"%Y-%m-%d %H:%M:%S", txt}};
  const char* cls = !fits ? "out-of-range" : (sec < 0 ? (ref::floormod(sec, Num) != 0 ? "neg-nonmultiple" : "neg-multiple") : (ref::floormod(sec, Num) != 0 ? "pos-nonmultiple" : "pos-multiple"));
  r.cls(std::string("C18:parse:") + dname + ":" + cls);
  for (auto& in : inputs) {
    cctz::time_point<D> tp{D{static_cast<Rep>(77)}};
    const bool ok = cctz::parse(in.first, in.second, utc, &tp);
    r.count("evaluations");
    if (ok != fits || (ok && static_cast<i128>(tp.time_since_epoch().count()) != want)) {
      r.violation(std::string("C18:parse:") + dname, std::string("parse(\"") + in.first + "\", \"" + in.second + "\") into " + dname + ": " + (ok ? "true, count " + std::to_string(static_cast<long long>(tp.time_since_epoch().count())) : "false") + "; expected " + (fits ? "true, count " + s128(want) : "false (does not fit)"), ra);
      return;
    }
  }
}

typedef std::chrono::duration<std::int64_t, std::nano> d_ns;
typedef std::chrono::duration<std::int64_t, std::micro> d_us;
typedef std::chrono::duration<std::int64_t, std::milli> d_ms;
typedef std::chrono::duration<std::int64_t> d_s;
typedef std::chrono::duration<std::int32_t, std::ratio<60>> d_min32;
typedef std::chrono::duration<std::int32_t, std::ratio<3600>> d_h32;
typedef std::chrono::duration<std::int16_t> d_s16;
typedef std::chrono::duration<std::int16_t, std::ratio<60>> d_min16;
typedef std::chrono::duration<std::int8_t> d_s8;
typedef std::chrono::duration<std::int8_t, std::ratio<60>> d_min8;
typedef std::chrono::duration<std::int64_t, std::ratio<1, 3>> d_third;
typedef std::chrono::duration<std::int64_t, std::femto> d_fs;
typedef std::chrono::duration<std::int64_t, std::ratio<60>> d_min64;
typedef std::chrono::duration<std::int64_t, std::ratio<3600>> d_h64;
typedef std::chrono::duration<std::int32_t> d_s32;
typedef std::chrono::duration<std::int64_t, std::ratio<86400>> d_day64;
// ticks that are a non-integral number of seconds (the remainder after the whole seconds is not a whole tick)
typedef std::chrono::duration<std::int64_t, std::ratio<5, 2>> d_5_2;
typedef std::chrono::duration<std::int32_t, std::ratio<3, 2>> d_3_2;
typedef std::chrono::duration<std::int64_t, std::ratio<1, 60>> d_60th;

template <typename D>
static void sweep_subsecond(const char* dname, bool thorough, const std::vector<cctz::time_zone>& zs, const std::vector<int>& offs, int shard, int nshards, hz::Result& r) {
  const long long ratio = D::period::den;  // ticks per second (num == 1 for these)
  std::vector<long long> S = {-2, -1, 0, 1, 86400, -86400, 1LL << 31, -(1LL << 31), 59, -59, -60, 3599, -3601};
  const long long lim = INT64_MAX / ratio;
  for (long long d = 2; d <= 4; ++d) { S.push_back(lim - d); S.push_back(-lim + d); }
  std::vector<long long> R = {0, 1, 2, ratio / 2 - 1, ratio / 2, ratio / 2 + 1, ratio - 2, ratio - 1};
  for (long long p = 10; p < ratio; p *= 10) { R.push_back(p - 1); R.push_back(p); R.push_back(p + 1); if (thorough) { R.push_back(5 * p); R.push_back(9 * p + 9); } }
  long long idx = 0;
  for (long long s : S) for (long long rr : R) {
    if (rr < 0 || rr >= ratio) continue;
    if ((idx++ % nshards) != shard) continue;
    // count = s*ratio + rr (floor representation: remainder always non-negative)
    const i128 c = static_cast<i128>(s) * ratio + rr;
    if (c < static_cast<i128>(INT64_MIN) || c > static_cast<i128>(INT64_MAX)) continue;
    for (size_t z = 0; z < zs.size(); ++z) check_tp<D>(dname, static_cast<long long>(c), zs[z], offs[z], r);
  }
}

template <typename D>
static void sweep_narrow(const char* dname, long long lo, long long hi, const std::vector<cctz::time_zone>& zs, const std::vector<int>& offs, int shard, int nshards, hz::Result& r) {
  for (i128 c = static_cast<i128>(lo) + shard; c <= hi; c += nshards)
    for (size_t z = 0; z < zs.size(); ++z) check_tp<D>(dname, static_cast<long long>(c), zs[z], offs[z], r);
}

template <typename D>
static void sweep_parse(const char* dname, bool thorough, int shard, int nshards, hz::Result& r) {
  typedef typename D::rep Rep;
  const long long Num = D::period::num;
  std::vector<long long> pts;
  const long long around = thorough ? 3 * 3600 + 10 : 2 * 3600 + 10;
  for (long long t = -around; t <= around; ++t) pts.push_back(t);
  // each limit of the representation: (limit*Num) +- [0, 2*Num+2]
  const i128 limits[2] = {static_cast<i128>(std::numeric_limits<Rep>::min()) * Num, static_cast<i128>(std::numeric_limits<Rep>::max()) * Num};
  const long long span = 2 * Num + 2;
  const long long step = (Num > 3600 && !thorough) ? 7 : 1;
  for (i128 L : limits) for (long long d = -span; d <= span; d += step) {
    const i128 t = L + d;
    // keep the civil year printable in 64 bits and the instant inside time_point<seconds>
    if (t < static_cast<i128>(INT64_MIN) + 86400 || t > static_cast<i128>(INT64_MAX) - 86400) continue;
    pts.push_back(static_cast<long long>(t));
  }
  for (size_t i = shard; i < pts.size(); i += nshards) check_parse<D>(dname, pts[i], r);
}

int main(int argc, char** argv) {
  hz::Args a = hz::parse_args(argc, argv);
  if (!ref::self_check()) return 2;
  hz::Result total;
  std::vector<cctz::time_zone> zs = {cctz::utc_time_zone(), cctz::fixed_time_zone(cctz::seconds(-30)), cctz::fixed_time_zone(cctz::seconds(20700))};
  std::vector<int> offs = {0, -30, 20700};
  if (a.has("--dur")) {
    const std::string d = a.get("--dur");
    const long long c = atoll(a.get("--count").c_str());
#define ONE(T, N) if (d == N) for (size_t z = 0; z < zs.size(); ++z) check_tp<T>(N, c, zs[z], offs[z], total);
    ONE(d_ns, "int64-ns") ONE(d_us, "int64-us") ONE(d_ms, "int64-ms") ONE(d_s, "int64-s") ONE(d_min32, "int32-min") ONE(d_h32, "int32-h") ONE(d_s16, "int16-s") ONE(d_min16, "int16-min") ONE(d_s8, "int8-s") ONE(d_min8, "int8-min") ONE(d_third, "int64-third") ONE(d_fs, "int64-fs") ONE(d_5_2, "int64-2.5s") ONE(d_3_2, "int32-1.5s") ONE(d_60th, "int64-60th")
    return hz::finish(a, total);
  }
  if (a.has("--pdur")) {
    const std::string d = a.get("--pdur");
    const long long s = atoll(a.get("--sec").c_str());
#define PONE(T, N) if (d == N) check_parse<T>(N, s, total);
    PONE(d_s, "int64-s") PONE(d_min32, "int32-min") PONE(d_h32, "int32-h") PONE(d_s16, "int16-s") PONE(d_min16, "int16-min") PONE(d_s8, "int8-s") PONE(d_min8, "int8-min") PONE(d_min64, "int64-min") PONE(d_h64, "int64-h") PONE(d_s32, "int32-s") PONE(d_day64, "int64-day")
    return hz::finish(a, total);
  }
  const int nshards = 64;
  const bool th = a.thorough();
  hz::PoolOpts po; po.workers = a.workers;
  hz::run_shards(nshards, po, a.workdir, [&](const hz::ShardCtl& ctl, hz::Result& r) {
    const int sh = ctl.shard;
    hz::begin_case(sh, "C18 shard " + std::to_string(sh));
    sweep_subsecond<d_ns>("int64-ns", th, zs, offs, sh, nshards, r);
    sweep_subsecond<d_us>("int64-us", th, zs, offs, sh, nshards, r);
    sweep_subsecond<d_ms>("int64-ms", th, zs, offs, sh, nshards, r);
    sweep_subsecond<d_third>("int64-third", th, zs, offs, sh, nshards, r);
    sweep_subsecond<d_fs>("int64-fs", th, zs, offs, sh, nshards, r);
    // whole-second and coarser representations: every value of the narrow ones
    sweep_narrow<d_s8>("int8-s", -128, 127, zs, offs, sh, nshards, r);
    sweep_narrow<d_min8>("int8-min", -128, 127, zs, offs, sh, nshards, r);
    sweep_narrow<d_s16>("int16-s", -32768, 32767, zs, offs, sh, nshards, r);
    sweep_narrow<d_min16>("int16-min", -32768, 32767, zs, offs, sh, nshards, r);
    sweep_narrow<d_5_2>("int64-2.5s", -20000, 20000, zs, offs, sh, nshards, r);
    sweep_narrow<d_3_2>("int32-1.5s", -20000, 20000, zs, offs, sh, nshards, r);
    sweep_narrow<d_3_2>("int32-1.5s", INT32_MIN, INT32_MIN + 1000LL, zs, offs, sh, nshards, r);
    sweep_narrow<d_3_2>("int32-1.5s", INT32_MAX - 1000LL, INT32_MAX, zs, offs, sh, nshards, r);
    sweep_narrow<d_60th>("int64-60th", -20000, 20000, zs, offs, sh, nshards, r);
    sweep_narrow<d_min32>("int32-min", -100000, 100000, zs, offs, sh, nshards, r);
    sweep_narrow<d_min32>("int32-min", INT32_MIN, INT32_MIN + 1000LL, zs, offs, sh, nshards, r);
    sweep_narrow<d_min32>("int32-min", INT32_MAX - 1000LL, INT32_MAX, zs, offs, sh, nshards, r);
    sweep_narrow<d_h32>("int32-h", -100000, 100000, zs, offs, sh, nshards, r);
    sweep_narrow<d_h32>("int32-h", INT32_MIN, INT32_MIN + 1000LL, zs, offs, sh, nshards, r);
    sweep_narrow<d_h32>("int32-h", INT32_MAX - 1000LL, INT32_MAX, zs, offs, sh, nshards, r);
    sweep_narrow<d_s>("int64-s", -100000, 100000, zs, offs, sh, nshards, r);
    sweep_narrow<d_s>("int64-s", INT64_MIN, INT64_MIN + 200, zs, offs, sh, nshards, r);
    sweep_narrow<d_s>("int64-s", INT64_MAX - 200, INT64_MAX, zs, offs, sh, nshards, r);
    // parse into seconds-or-coarser targets
    sweep_parse<d_s>("int64-s", th, sh, nshards, r);
    sweep_parse<d_s32>("int32-s", th, sh, nshards, r);
    sweep_parse<d_s16>("int16-s", th, sh, nshards, r);
    sweep_parse<d_s8>("int8-s", th, sh, nshards, r);
    sweep_parse<d_min8>("int8-min", th, sh, nshards, r);
    sweep_parse<d_min16>("int16-min", th, sh, nshards, r);
    sweep_parse<d_min32>("int32-min", th, sh, nshards, r);
    sweep_parse<d_min64>("int64-min", th, sh, nshards, r);
    sweep_parse<d_h32>("int32-h", th, sh, nshards, r);
    sweep_parse<d_h64>("int64-h", th, sh, nshards, r);
    sweep_parse<d_day64>("int64-day", th, sh, nshards, r);
  }, &total);
  total.sample("{\"dur\":\"int64-ns\",\"count\":-100000000,\"expected\":\"1969-12-31 23:59:59.9 (second 59 of 1969), %E3S = 59.900\"}");
  total.sample("{\"parse_into\":\"int32-h\",\"input\":\"%s -7260\",\"expected\":\"count -3 (floor), not -2\"}");
  return hz::finish(a, total);
}
