// E3 harness for C13 and C20: stateless, preemption-bounded exploration of
// the real loader / lookup code under the controlled scheduler (sched.cc).
#include "../common/harness.h"
#include "../sched/bodies.h"
#include "../sched/vsched.h"
#include <sys/wait.h>
#include <unistd.h>

using bodies::Harness;
using bodies::Obs;
using bodies::Verdict;

static std::string g_prop;

static std::string join_choices(const std::vector<int>& c) {
  std::string s;
  for (size_t i = 0; i < c.size(); ++i) s += (i ? "," : "") + std::to_string(c[i]);
  return s;
}
static std::vector<int> split_choices(const std::string& s) {
  std::vector<int> v;
  std::istringstream is(s);
  std::string tok;
  while (std::getline(is, tok, ',')) if (!tok.empty()) v.push_back(atoi(tok.c_str()));
  return v;
}

static void reset_for(const Harness& h) {
  bodies::apply_env(h);
  cctz::time_zone::Impl::ClearTimeZoneMapTestOnly();
  bodies::world().reset_exec(h.threads.size());
  for (auto& n : h.preload) {
    bodies::World& w = bodies::world();
    w.cur_load.back() = n;
    w.cur_thread.back() = pthread_self();
    cctz::time_zone tz;
    cctz::load_time_zone(n, &tz);
    w.cur_load.back() = "";
  }
}

static std::vector<Obs> sequential_reference(const Harness& h) {
  reset_for(h);
  std::vector<Obs> seq(h.threads.size());
  for (size_t t = 0; t < h.threads.size(); ++t) bodies::run_ops(h.threads[t], &seq[t]);
  return seq;
}

struct RunOut { vsched::Exec ex; Verdict v; std::string obs_digest; };

static RunOut run_once(const Harness& h, const std::vector<Obs>& seq, const std::vector<int>& prefix, unsigned mask) {
  RunOut out;
  reset_for(h);
  std::vector<Obs> obs(h.threads.size());
  std::vector<std::function<void()>> bodies_;
  for (size_t t = 0; t < h.threads.size(); ++t) bodies_.push_back([&h, &obs, t] { bodies::run_ops(h.threads[t], &obs[t]); });
  out.ex = vsched::run(bodies_, prefix, mask);
  if (out.ex.deadlock || out.ex.diverged) return out;
  out.v = bodies::judge(h, obs, seq);
  std::ostringstream d;
  for (auto& o : obs) for (auto& r : o.res) d << r << "|";
  out.obs_digest = d.str() + "#" + out.v.outcome;
  return out;
}

struct Job { const Harness* h; bool coarse; int bound; bool cold = false; };

// ---- cold start: one fresh process per execution -----------------------------------------------
// The calling process must never have touched cctz (function-local statics uninitialised); the child
// runs the schedule FIRST (so UTCImpl / TimeZoneMutex / LoadMutex are initialised under the explored
// schedule, their guards being scheduling points), then computes the single-threaded reference.
static void put_str(std::string& o, const std::string& s) { o += std::to_string(s.size()) + ":" + s; }
static bool get_str(const std::string& in, size_t* p, std::string* s) {
  size_t c = in.find(':', *p);
  if (c == std::string::npos) return false;
  size_t n = static_cast<size_t>(atoll(in.substr(*p, c - *p).c_str()));
  if (c + 1 + n > in.size()) return false;
  *s = in.substr(c + 1, n);
  *p = c + 1 + n;
  return true;
}
static RunOut run_once_cold(const Harness& h, const std::vector<int>& prefix, unsigned mask, bool* child_died) {
  RunOut out;
  *child_died = false;
  int fds[2];
  if (pipe(fds) != 0) { *child_died = true; return out; }
  fflush(nullptr);
  pid_t pid = fork();
  if (pid == 0) {
    close(fds[0]);
    bodies::world().reset_exec(h.threads.size());
    std::vector<Obs> obs(h.threads.size());
    std::vector<std::function<void()>> bodies_;
    for (size_t t = 0; t < h.threads.size(); ++t) bodies_.push_back([&h, &obs, t] { bodies::run_ops(h.threads[t], &obs[t]); });
    vsched::Exec ex = vsched::run(bodies_, prefix, mask);
    std::string o;
    o += std::to_string(ex.deadlock ? 1 : 0) + " " + std::to_string(ex.diverged ? 1 : 0) + " " + std::to_string(ex.points.size()) + "\n";
    for (auto& p : ex.points) {
      o += std::to_string(p.chosen) + " " + std::to_string(p.running_enabled ? 1 : 0) + " " + std::to_string(p.kind) + " " + std::to_string(p.enabled.size());
      for (int e : p.enabled) o += " " + std::to_string(e);
      o += "\n";
    }
    std::string tail;
    put_str(tail, ex.deadlock_info);
    if (!ex.deadlock && !ex.diverged) {
      // keep what the racing threads observed, then derive the single-threaded reference in this same process
      const std::vector<bodies::FactoryEvent> saved_flog = bodies::world().flog;  // factory log of the concurrent run
      const std::map<std::string, int> saved_calls = bodies::world().fcalls;
      std::vector<Obs> seq(h.threads.size());
      bodies::apply_env(h);
      cctz::time_zone::Impl::ClearTimeZoneMapTestOnly();
      bodies::world().reset_exec(h.threads.size());
      for (size_t t = 0; t < h.threads.size(); ++t) bodies::run_ops(h.threads[t], &seq[t]);
      // restore the concurrent run's cache view is not possible; identities are compared among the racing threads
      bodies::world().flog = saved_flog;
      bodies::world().fcalls = saved_calls;
      Verdict v = bodies::judge(h, obs, seq, false);
      // the "later re-load" predicate of judge() is not meaningful after the cache was cleared: drop those lines
      std::vector<std::string> c13;
      for (auto& x : v.c13) if (x.find("later re-load") == std::string::npos) c13.push_back(x);
      std::string dig;
      for (auto& ob : obs) for (auto& rr : ob.res) dig += rr + "|";
      dig += "#" + v.outcome;
      put_str(tail, dig);
      tail += std::to_string(c13.size()) + " ";
      for (auto& x : c13) put_str(tail, x);
      // C20: ignore the factory calls of the sequential reference (the log was restored before judging)
      tail += std::to_string(v.c20.size()) + " ";
      for (auto& x : v.c20) put_str(tail, x);
    }
    o += tail;
    size_t off = 0;
    while (off < o.size()) { ssize_t w = write(fds[1], o.data() + off, o.size() - off); if (w <= 0) break; off += static_cast<size_t>(w); }
    close(fds[1]);
    fflush(nullptr);
    _exit(0);
  }
  close(fds[1]);
  std::string in;
  char buf[4096];
  ssize_t n;
  while ((n = read(fds[0], buf, sizeof buf)) > 0) in.append(buf, static_cast<size_t>(n));
  close(fds[0]);
  int st = 0;
  waitpid(pid, &st, 0);
  if (!WIFEXITED(st) || WEXITSTATUS(st) != 0 || in.empty()) { *child_died = true; return out; }
  std::istringstream is(in);
  int dl = 0, dv = 0; size_t np = 0;
  is >> dl >> dv >> np;
  out.ex.deadlock = dl != 0; out.ex.diverged = dv != 0;
  for (size_t i = 0; i < np; ++i) {
    vsched::PointRec p; int re = 0; size_t ne = 0;
    is >> p.chosen >> re >> p.kind >> ne;
    p.running_enabled = re != 0;
    for (size_t k = 0; k < ne; ++k) { int e; is >> e; p.enabled.push_back(e); }
    p.tid = p.enabled.empty() ? -1 : p.enabled[p.chosen];
    out.ex.points.push_back(p);
  }
  std::string rest;
  { std::string line; std::getline(is, line); std::ostringstream o; o << is.rdbuf(); rest = o.str(); }
  size_t pp = 0;
  get_str(rest, &pp, &out.ex.deadlock_info);
  if (!out.ex.deadlock && !out.ex.diverged) {
    get_str(rest, &pp, &out.obs_digest);
    for (int which = 0; which < 2; ++which) {
      size_t sp = rest.find(' ', pp);
      if (sp == std::string::npos) break;
      int cnt = atoi(rest.substr(pp, sp - pp).c_str());
      pp = sp + 1;
      for (int i = 0; i < cnt; ++i) { std::string x; if (!get_str(rest, &pp, &x)) break; (which == 0 ? out.v.c13 : out.v.c20).push_back(x); }
    }
  }
  return out;
}

static void explore_job(const Job& job, int shard, int nshards, const hz::Args& a, hz::Result& r) {
  const Harness& h = *job.h;
  const unsigned mask = job.coarse ? vsched::mask_coarse() : vsched::mask_all();
  const std::string tag = h.id + (job.cold ? ":cold" : "") + (job.coarse ? ":coarse" : ":b" + std::to_string(job.bound));
  std::vector<Obs> seq;
  bool died = false;
  auto exec = [&](const std::vector<int>& prefix) -> RunOut {
    if (!job.cold) return run_once(h, seq, prefix, mask);
    bool d = false;
    RunOut o = run_once_cold(h, prefix, mask, &d);
    if (d) { died = true; o.ex.diverged = true; }
    return o;
  };
  if (!job.cold) seq = sequential_reference(h);
  // first level: default execution and its children, dealt round-robin to the shards
  RunOut e0 = exec({});
  std::vector<std::vector<int>> roots;
  if (!e0.ex.deadlock && !e0.ex.diverged) {
    std::vector<int> ch = e0.ex.choices();
    for (size_t i = 0; i < e0.ex.points.size(); ++i) {
      const auto& p = e0.ex.points[i];
      int cost = e0.ex.preemptions_before(i) + (p.running_enabled ? 1 : 0);
      if (job.bound >= 0 && cost > job.bound) continue;
      for (size_t alt = 1; alt < p.enabled.size(); ++alt) {
        std::vector<int> c(ch.begin(), ch.begin() + i);
        c.push_back(static_cast<int>(alt));
        roots.push_back(c);
      }
    }
  }
  std::set<std::string> outcomes;
  long long viol_here = 0;
  auto handle = [&](const RunOut& o, const std::vector<int>& choices) -> bool {
    r.count("evaluations");
    r.count("schedules:" + tag);
    r.count("transitions", static_cast<long long>(o.ex.points.size()));
    int pre = o.ex.preemptions_before(o.ex.points.size());
    r.cls("C13:" + h.id + (job.cold ? ":cold" : "") + (job.coarse ? ":coarse" : "") + ":preemptions=" + std::to_string(pre > 4 ? 5 : pre));
    std::vector<std::string> ra = {"--harness", h.id, "--coarse", job.coarse ? "1" : "0", "--cold", job.cold ? "1" : "0", "--choices", join_choices(choices)};
    if (o.ex.diverged && died) { r.violation("C13:crash:" + h.id, "the process executing " + tag + " under schedule [" + join_choices(choices) + "] died (sanitizer report or abort)", ra); return false; }
    if (o.ex.diverged) { r.note("BROKEN: schedule prefix diverged in " + tag + " at " + join_choices(choices)); return false; }
    if (o.ex.deadlock) {
      r.violation("C13:deadlock:" + h.id, "deadlock in " + tag + " under schedule [" + join_choices(choices) + "]: " + o.ex.deadlock_info, ra);
      return false;  // process poisoned (threads parked)
    }
    outcomes.insert(o.obs_digest);
    const std::vector<std::string>& vv = (g_prop == "C20") ? o.v.c20 : o.v.c13;
    if (!vv.empty() && viol_here < 3) {
      // replay twice before reporting: same schedule must give the same observations
      RunOut a1 = exec(choices), a2 = exec(choices);
      if (a1.obs_digest != o.obs_digest || a2.obs_digest != o.obs_digest) {
        r.note("BROKEN: schedule [" + join_choices(choices) + "] of " + tag + " is not reproducible");
        return false;
      }
    }
    if (!vv.empty()) {
      ++viol_here;
      std::string kind = vv[0].substr(0, vv[0].find(':') == std::string::npos ? 40 : std::min<size_t>(40, vv[0].find(':')));
      std::string sig = g_prop + ":" + h.id + ":" + (vv[0].find("concurrently") != std::string::npos ? "factory-overlap" : vv[0].find("times for the one name") != std::string::npos ? "factory-twice" : vv[0].find("fixed-offset/UTC") != std::string::npos ? "factory-for-fixed" : vv[0].find("not the thread") != std::string::npos ? "factory-wrong-thread" : vv[0].find("compare equal") != std::string::npos ? "identity-split" : vv[0].find("re-load") != std::string::npos ? "identity-reload" : vv[0].find("single-threaded") != std::string::npos ? "result-differs" : "other");
      std::string msg = h.id + " (" + h.purpose + ") schedule [" + join_choices(choices) + "] with " + std::to_string(pre) + " preemption(s):";
      for (size_t i = 0; i < vv.size() && i < 4; ++i) msg += "\n  " + vv[i];
      r.violation(sig, msg, ra);
    }
    return true;
  };
  if (shard == 0) {
    handle(e0, e0.ex.choices());
    r.count("roots:" + tag, static_cast<long long>(roots.size()));
  }
  if (e0.ex.deadlock || e0.ex.diverged) return;
  vsched::ExploreStats st;
  const long long cap = a.thorough() ? 4000000 : 600000;
  bool stop_all = false;
  for (size_t k = shard; k < roots.size() && !stop_all; k += nshards) {
    if (a.time_up()) { r.exhaustive = false; r.note("deadline reached in " + tag + " before root " + std::to_string(k) + " of " + std::to_string(roots.size())); break; }
    hz::begin_case(k, tag + " root [" + join_choices(roots[k]) + "]");
    RunOut last;
    long long n_in_root = 0;
    vsched::explore(
        [&](const std::vector<int>& prefix) { last = exec(prefix); if ((++n_in_root & 63) == 0) hz::tick(); return last.ex; },
        job.bound, roots[k], job.coarse, cap,
        [&](const vsched::Exec& x) {
          if (!handle(last, x.choices())) { stop_all = true; return false; }
          if (a.time_up()) { r.exhaustive = false; r.note("deadline reached inside " + tag); stop_all = true; return false; }
          return true;
        },
        &st);
    if (st.capped) { r.exhaustive = false; r.note("execution cap reached in " + tag); break; }
  }
  r.count("pruned_by_state:" + tag, st.pruned_by_state);
  r.count("states", st.distinct_states);
  // distinct outcomes seen by this shard (merged as max by the parent via a class per digest hash)
  for (auto& o : outcomes) { r.cls("outcome:" + tag + ":" + std::to_string(std::hash<std::string>()(o) % 100000)); }
}

static std::vector<Job> jobs_for(const hz::Args& a, std::vector<Harness>& fine, std::vector<Harness>& coarse) {
  std::vector<Job> jobs;
  if (a.has("--race-pass")) {
    // ThreadSanitizer build under the scheduler: same schedules, lower bounds (TSan is the oracle here)
    for (auto& h : fine) jobs.push_back({&h, false, a.thorough() ? 3 : 2});
    for (auto& h : coarse) jobs.push_back({&h, true, -1});
    for (auto& h : fine) if (h.id == "H1" || h.id == "H5") { Job j{&h, false, a.thorough() ? 2 : 1}; j.cold = true; jobs.push_back(j); }
    return jobs;
  }
  const int bound = a.thorough() ? 5 : 3;
  for (auto& h : fine) {
    int b = bound;
    if (h.id == "H7") b = a.thorough() ? 3 : 2;  // 3 threads x many atomic points
    jobs.push_back({&h, false, b});
  }
  for (auto& h : coarse) jobs.push_back({&h, true, -1});
  // cold start (statics uninitialised, one fresh process per execution)
  for (auto& h : fine) if (h.id == "H1" || h.id == "H4" || h.id == "H5" || h.id == "H5b" || h.id == "H5c" || h.id == "H5e") { const bool big = (h.id == "H4" || h.id == "H5b"); Job j{&h, false, a.thorough() ? (big ? 2 : 3) : (big ? 1 : 2)}; j.cold = true; jobs.push_back(j); }
  return jobs;
}

int main(int argc, char** argv) {
  hz::Args a = hz::parse_args(argc, argv);
  g_prop = a.prop;
  bodies::setup_world();
  hz::Result total;
  std::vector<Harness> fine = bodies::harnesses(), coarse = bodies::coarse_harnesses();
  if (a.has("--choices")) {
    // replay one recorded schedule (twice: determinism check)
    std::string id = a.get("--harness");
    bool co = a.get("--coarse") == "1";
    for (auto* hs : {&fine, &coarse}) for (auto& h : *hs) if (h.id == id) {
      std::vector<int> ch = split_choices(a.get("--choices"));
      const bool cold = a.get("--cold") == "1";
      std::vector<Obs> seq;
      if (!cold) seq = sequential_reference(h);
      bool dd = false;
      RunOut o1 = cold ? run_once_cold(h, ch, vsched::mask_all(), &dd) : run_once(h, seq, ch, co ? vsched::mask_coarse() : vsched::mask_all());
      if (o1.ex.deadlock) { total.violation("C13:deadlock:" + h.id, "deadlock on replay: " + o1.ex.deadlock_info, {}); return hz::finish(a, total); }
      RunOut o2 = cold ? run_once_cold(h, ch, vsched::mask_all(), &dd) : run_once(h, seq, ch, co ? vsched::mask_coarse() : vsched::mask_all());
      if (o1.obs_digest != o2.obs_digest || o1.ex.diverged) total.note("BROKEN: replay not reproducible");
      const std::vector<std::string>& vv = (g_prop == "C20") ? o1.v.c20 : o1.v.c13;
      std::string msg;
      for (auto& x : vv) msg += x + "\n";
      if (!vv.empty()) total.violation(g_prop + ":" + h.id + ":replay", msg, {});
      total.count("evaluations", 2);
      printf("replayed %s: %zu points, observations: %s\n", h.id.c_str(), o1.ex.points.size(), o1.obs_digest.c_str());
      if (a.has("--dump")) { for (auto& p : o1.ex.points) printf("  t%d kind=%d enabled=%zu%s\n", p.tid, p.kind, p.enabled.size(), p.running_enabled ? "" : " (switch forced)"); }
    }
    return hz::finish(a, total);
  }
  std::vector<Job> jobs = jobs_for(a, fine, coarse);
  std::string only = a.get("--only");
  const int per_job_shards = 16;
  const int nshards = static_cast<int>(jobs.size()) * per_job_shards;
  hz::PoolOpts po; po.workers = a.workers; po.hang_s = 120;
  hz::run_shards(nshards, po, a.workdir, [&](const hz::ShardCtl& ctl, hz::Result& r) {
    const Job& job = jobs[ctl.shard / per_job_shards];
    if (!only.empty() && job.h->id != only) return;
    explore_job(job, ctl.shard % per_job_shards, per_job_shards, a, r);
  }, &total, [&](long long, const std::string& what) -> std::vector<std::string> {
    // "Hx:b2 root [..]" -> replay the root prefix
    size_t lb = what.find('['), rb = what.find(']');
    size_t sp = what.find(':');
    if (lb == std::string::npos || rb == std::string::npos || sp == std::string::npos) return {};
    bool co = what.compare(sp + 1, 6, "coarse") == 0;
    return {"--harness", what.substr(0, sp), "--coarse", co ? "1" : "0", "--choices", what.substr(lb + 1, rb - lb - 1)};
  });
  // one long single-threaded history ("followed by arbitrary repeat loads" cannot be reached by short schedules if a
  // cache is bounded or evicts): 1500 distinct failing names + the served ones + UTC / fixed names, each loaded once
  // and then twice more in both orders; the factory log must show at most one invocation per name, on the caller.
  if (only.empty() && g_prop == "C20") {
    bodies::Harness hl{"HL", "long single-threaded history", {{}}, {}, false};
    bodies::apply_env(hl);
    cctz::time_zone::Impl::ClearTimeZoneMapTestOnly();
    bodies::World& w = bodies::world();
    w.reset_exec(1);
    std::vector<std::string> names = {"A", "B", "R", "A2", "BAD", "X", "UTC", "UTC0", "Fixed/UTC+01:00:00", "Fixed/UTC+25:00:00", "file:B"};
    for (int i = 0; i < 1500; ++i) names.push_back("Absent/" + std::to_string(i));
    for (int pass = 0; pass < 3; ++pass)
      for (size_t k = 0; k < names.size(); ++k) {
        const std::string& n = names[pass == 2 ? names.size() - 1 - k : k];
        w.cur_load.back() = n;
        w.cur_thread.back() = pthread_self();
        cctz::time_zone tz;
        cctz::load_time_zone(n, &tz);
        w.cur_load.back() = "";
        total.count("evaluations");
      }
    Verdict v = bodies::judge(hl, {}, {}, false);
    total.cls("C13:HL:long-history");
    if (!v.c20.empty()) total.violation("C20:HL:" + std::string(v.c20[0].find("times for the one name") != std::string::npos ? "factory-twice" : "other"), "long history (" + std::to_string(names.size()) + " names, each loaded three times, single thread): " + v.c20[0], {});
  }
  // evidence-level figures
  total.counters["traces_validated_against_impl"] = total.counters["evaluations"];
  // distinct outcomes per job (classes named outcome:<tag>:<hash>)
  std::map<std::string, int> per;
  for (auto& kv : total.classes) if (kv.first.compare(0, 8, "outcome:") == 0) { std::string t = kv.first.substr(8, kv.first.rfind(':') - 8); per[t]++; }
  for (auto& kv : per) total.counters["distinct_outcomes:" + kv.first] = kv.second;
  for (auto& j : jobs) {
    std::string tag = j.h->id + (j.cold ? ":cold" : "") + (j.coarse ? ":coarse" : ":b" + std::to_string(j.bound));
    if (!only.empty() && j.h->id != only) continue;
    if (j.h->expect_contention && per[tag] < 2 && total.nviol == 0 && total.exhaustive)
      total.note("BROKEN: harness " + tag + " produced a single outcome over all schedules: the threads never collided (vacuous)");
  }
  total.sample("{\"harness\":\"H1\",\"threads\":[[\"load A\"],[\"load A\"]],\"schedule\":\"choice list, e.g. [0,0,1,0,...]: index into the canonical enabled-thread list at every scheduling point\"}");
  for (auto& j : jobs) if (total.samples.size() < 8) total.sample("{\"harness\":" + hz::jstr(j.h->id) + ",\"purpose\":" + hz::jstr(j.h->purpose) + ",\"mode\":" + hz::jstr(j.coarse ? "coarse: all interleavings at lock/factory/thread-end granularity, trace-state pruned" : "fine: every lock/unlock/atomic/guard/factory/Read point, preemption bound " + std::to_string(j.bound)) + "}");
  return hz::finish(a, total);
}
