// E4 harness for C12: deviation-bounded enumeration of malformed zone data and
// of deviating data-source answers, each loaded into the real library under
// ASan+UBSan (UBSan in recover mode with a report hook, so that every report is
// attributed to the input that caused it and the sweep continues).
// The same source is also built with clang -ftrivial-auto-var-init=pattern /
// =zero (no sanitizers): those builds only emit per-case outcome hashes, which
// the driver compares ("the outcome is a function of the bytes alone").
#include <climits>
#include <fcntl.h>
#include <unistd.h>

#include "../common/harness.h"
#include "../common/impl_glue.h"
#include "../common/posix_corpus.h"
#include "../common/ref_zone.h"
#include "../common/tzgen.h"

typedef cctz::time_zone::civil_lookup CL;

// ---- UBSan report capture ---------------------------------------------------
static std::vector<std::string>* g_ub = nullptr;
extern "C" void __ubsan_get_current_report_data(const char** kind, const char** msg, const char** file, unsigned* line, unsigned* col, char** addr) __attribute__((weak));
extern "C" void __ubsan_on_report(void) {
  if (!__ubsan_get_current_report_data || !g_ub) return;
  const char *k = "", *m = "", *f = "";
  unsigned l = 0, c = 0;
  char* a = nullptr;
  __ubsan_get_current_report_data(&k, &m, &f, &l, &c, &a);
  std::string file = f ? f : "";
  size_t sl = file.rfind('/');
  if (sl != std::string::npos) file = file.substr(sl + 1);
  if (g_ub->size() < 8) g_ub->push_back(std::string("ubsan:") + (k ? k : "?") + "@" + file + ":" + std::to_string(l));
}

// ---- data source with deviations ------------------------------------------
struct Dev { int read_k = -1; int read_mode = 0; bool skip_fails = false; bool big_version = false; };
struct DevSource : public cctz::ZoneInfoSource {
  DevSource(const std::string& b, const Dev& d) : bytes(b), pos(0), dev(d), nread(0) {}
  std::size_t Read(void* ptr, std::size_t size) override {
    std::size_t want = std::min(size, bytes.size() - pos);
    if (nread++ == dev.read_k) {
      if (dev.read_mode == 0) want = 0;
      else if (dev.read_mode == 1) want = want ? want - 1 : 0;
      else want = std::min<std::size_t>(want, 1);
    }
    if (want) memcpy(ptr, bytes.data() + pos, want);
    pos += want;
    return want;
  }
  int Skip(std::size_t off) override {
    if (dev.skip_fails) return -1;
    pos += std::min(off, bytes.size() - pos);
    return 0;
  }
  std::string Version() const override { return dev.big_version ? std::string(65536, 'v') : std::string(); }
  std::string bytes;
  std::size_t pos;
  Dev dev;
  int nread;
};
static const std::string* g_cur_bytes = nullptr;
static Dev g_cur_dev;
static std::unique_ptr<cctz::ZoneInfoSource> Factory(const std::string& name, const std::function<std::unique_ptr<cctz::ZoneInfoSource>(const std::string&)>&) {
  if (name.compare(0, 2, "m/") == 0 && g_cur_bytes) return std::unique_ptr<cctz::ZoneInfoSource>(new DevSource(*g_cur_bytes, g_cur_dev));
  return nullptr;
}

// ---- helpers ---------------------------------------------------------------
static uint64_t fnv(uint64_t h, const std::string& s) {
  for (unsigned char c : s) { h ^= c; h *= 1099511628211ULL; }
  return h;
}
static void put_be(std::string& b, size_t pos, unsigned long long v, int n) {
  for (int i = 0; i < n; ++i) b[pos + i] = static_cast<char>((v >> (8 * (n - 1 - i))) & 0xff);
}

struct Layout {  // offsets inside a well-formed seed file
  bool ok = false;
  int version = 1;
  size_t h1 = 0, h2 = 0;          // header offsets (h2 = 0 if none)
  size_t times = 0, idx = 0, tt = 0, chars = 0, end_block = 0, footer = 0;
  size_t timecnt = 0, typecnt = 0, charcnt = 0;
  int tl = 4;
};
static Layout layout_of(const std::string& b) {
  using namespace ref::tzif_detail;
  Layout L;
  Hdr h;
  if (!read_hdr(b, 0, &h) || h.version < 0) return L;
  L.version = h.version;
  size_t pos = 44;
  if (h.version >= 2) {
    pos += block_len(h, 4);
    if (!read_hdr(b, pos, &h)) return L;
    L.h2 = pos;
    pos += 44;
    L.tl = 8;
  }
  L.timecnt = h.timecnt; L.typecnt = h.typecnt; L.charcnt = h.charcnt;
  L.times = pos;
  L.idx = L.times + h.timecnt * L.tl;
  L.tt = L.idx + h.timecnt;
  L.chars = L.tt + h.typecnt * 6;
  L.end_block = L.chars + h.charcnt + h.leapcnt * (L.tl + 4) + h.isstdcnt + h.isutcnt;
  L.footer = L.end_block;
  if (L.end_block > b.size()) return L;
  L.ok = true;
  return L;
}

// Facts about an input, from the reference reader only (for known-finding predicates).
static std::string facts_of(const std::string& b) {
  ref::TzifRaw r = ref::read_tzif(b, true);
  if (!r.ok) return "facts=[unreadable:" + r.why + "]";
  std::string f = "facts=[timecnt=" + std::to_string(r.times.size()) + " typecnt=" + std::to_string(r.tts.size());
  if (r.tts.size() > 256) f += " typecnt>256";
  if (r.times.empty()) f += " no-transitions";
  const long long Y402 = 402LL * 31556952LL;
  if (!r.times.empty()) {
    if (r.times.back() > INT64_MAX - Y402) f += " last>max-402y";
    if (r.times.front() < -(1LL << 62)) f += " first<-2^62";
    if (r.times.back() < -(1LL << 59)) f += " last<-2^59";
    if (r.times.back() < -62167219200LL - 400LL * 31556952LL) f += " lastyear<-400";
    else if (r.times.back() < -62167219200LL) f += " lastyear<0";
    for (long long t : r.times) if (t > (1LL << 62) || t < -(1LL << 62)) { f += " |time|>2^62"; break; }
  }
  ref::Posix px;
  if (r.has_footer && !r.footer.empty() && ref::parse_posix(r.footer, &px)) f += px.has_dst ? " footer=dst" : " footer=std";
  else if (r.has_footer && !r.footer.empty()) f += " footer=invalid";
  return f + "]";
}

// ---- one case ---------------------------------------------------------------
static int g_hashfd = -1;
static bool g_primary = true;  // sanitizer build: applies the oracle; other builds only emit hashes
static long long g_name_ctr = 0;

static std::string panel(const cctz::time_zone& tz, const std::string& bytes) {
  std::string out;
  char b[256];
  std::vector<long long> T = {INT64_MIN, INT64_MIN + 1, -(1LL << 59) - 1, -(1LL << 59), -(1LL << 31), -1, 0, 1, (1LL << 31) - 1, 1LL << 31, 1LL << 59, INT64_MAX - 1, INT64_MAX,
                              4102444800LL, 32503680000LL, 253402300800LL, 1LL << 40, 1LL << 50, -(1LL << 40), 9223372036854775807LL - 12622780800LL};
  ref::TzifRaw r = ref::read_tzif(bytes);
  if (r.ok) {
    for (size_t i = 0; i < r.times.size(); ++i) if (i < 3 || i + 3 >= r.times.size()) {
      long long t = r.times[i];
      if (t > INT64_MIN) T.push_back(t - 1);
      T.push_back(t);
      if (t < INT64_MAX) T.push_back(t + 1);
    }
  }
  std::vector<cctz::civil_second> C = {cctz::civil_second::min(), cctz::civil_second::max(), cctz::civil_second(), cctz::civil_second(2500, 7, 1), cctz::civil_second(-500, 1, 1), cctz::civil_second(123456789, 12, 31, 23, 59, 59),
                                       cctz::civil_second(292277026596LL, 12, 4, 15, 30, 7), cctz::civil_second(-292277022657LL, 1, 27, 8, 29, 52)};
  for (long long t : T) {
    auto al = tz.lookup(glue::tp_of(t));
    snprintf(b, sizeof b, "%lld:%lld-%d-%d %d:%d:%d %d %d %.12s|", t, (long long)al.cs.year(), al.cs.month(), al.cs.day(), al.cs.hour(), al.cs.minute(), al.cs.second(), al.offset, al.is_dst, al.abbr ? al.abbr : "(null)");
    out += b;
    C.push_back(al.cs);
  }
  for (const auto& cs : C) {
    CL cl = tz.lookup(cs);
    snprintf(b, sizeof b, "%d %lld %lld %lld|", cl.kind, (long long)glue::unix_of(cl.pre), (long long)glue::unix_of(cl.trans), (long long)glue::unix_of(cl.post));
    out += b;
    (void)cctz::convert(cs, tz);
  }
  cctz::time_zone::civil_transition tr;
  auto tp = cctz::time_point<cctz::seconds>::min();
  int n = 0;
  while (n < 3000 && tz.next_transition(tp, &tr)) {
    ++n;
    auto nt = tz.lookup(tr.to).trans;
    if (nt <= tp) { out += "next-not-advancing|"; break; }
    tp = nt;
  }
  snprintf(b, sizeof b, "next=%d|", n);
  out += b;
  tp = cctz::time_point<cctz::seconds>::max();
  n = 0;
  while (n < 3000 && tz.prev_transition(tp, &tr)) {
    ++n;
    auto nt = tz.lookup(tr.to).trans;
    if (nt >= tp) { out += "prev-not-retreating|"; break; }
    tp = nt;
  }
  snprintf(b, sizeof b, "prev=%d|", n);
  out += b;
  out += cctz::format("%Y-%m-%dT%H:%M:%S %z %Z", glue::tp_of(0), tz) + "|" + cctz::format("%c %E*z", glue::tp_of(INT64_MAX), tz);
  out += tz.name().substr(0, 2) + tz.version().substr(0, 4);
  return out;
}

// Fills the stack region the next calls will use with newline bytes (the value the footer reader searches for), so
// that a read of an uninitialised local in the sanitizer build yields a value the two clang builds (which pre-fill
// automatic variables with 0xAA / 0x00) cannot produce: the outcome hashes then differ.
__attribute__((noinline)) static void paint_stack() {
  volatile char buf[49152];
  for (size_t i = 0; i < sizeof buf; ++i) buf[i] = '\n';
  __asm__ volatile("" ::: "memory");
}

static void run_case(long long idx, const std::string& desc, const std::string& bytes, const Dev& dev, hz::Result& r) {
  std::vector<std::string> ub;
  g_ub = &ub;
  g_cur_bytes = &bytes;
  g_cur_dev = dev;
  long long raw[3] = {idx, static_cast<long long>(bytes.size()), 0};
  hz::set_raw(raw, 3);
  const bool deviates = dev.read_k >= 0 || dev.skip_fails || dev.big_version;
  uint64_t h = 1469598103934665603ULL;
  std::string first_out;
  bool first_ok = false;
  for (int rep = 0; rep < 2; ++rep) {
    cctz::time_zone tz;
    const std::string name = "m/" + std::to_string(g_name_ctr++);
    paint_stack();
    const bool ok = cctz::load_time_zone(name, &tz);
    std::string out = ok ? "ok|" : "fail|";
    if (!ok && tz != cctz::utc_time_zone()) {
      r.violation("C12:failed-load-not-utc", "case " + desc + ": load failed but the zone is not UTC", {"--case", std::to_string(idx)});
    }
    if (ok) out += panel(tz, bytes);
    if (rep == 0) { first_out = out; first_ok = ok; h = fnv(h, out); }
    else if (out != first_out && g_primary) {
      r.violation("C12:nondeterministic-in-process", "case " + desc + ": two loads of the same bytes under different names gave different outcomes (" + first_out.substr(0, 60) + " vs " + out.substr(0, 60) + ")", {"--case", std::to_string(idx)});
    }
  }
  g_ub = nullptr;
  r.count("evaluations");
  r.cls(std::string("C12:") + desc.substr(0, desc.find(':')) + (first_ok ? ":loads" : ":rejected"));
  if (g_hashfd >= 0 && !deviates) { if (pwrite(g_hashfd, &h, 8, idx * 8) != 8) r.count("hash_write_failed"); }
  if (!ub.empty() && g_primary) {
    std::set<std::string> uniq(ub.begin(), ub.end());
    {
      std::string ff = facts_of(bytes), flags;
      std::istringstream is(ff.substr(7, ff.size() - 8));
      std::string tok;
      while (is >> tok) if (tok.compare(0, 8, "timecnt=") != 0 && tok.compare(0, 8, "typecnt=") != 0) flags += tok + " ";
      for (auto& u : uniq) r.count("kf:" + u + " | " + flags);
      // classification key: sanitizer signature + the fact flags (everything the known-findings predicates read)
      for (auto& u : uniq) r.violation(u, "case " + desc + " (load " + (first_ok ? "ok" : "failed") + "): " + u + " " + facts_of(bytes), {"--case", std::to_string(idx)}, u + " | " + flags);
    }
  }
}

// ---- the enumeration ---------------------------------------------------------
struct Seed { std::string name, bytes; bool primary = true; };  // non-primary (thorough tier only): reduced operator set, see gen_seed

static const long long kInteresting64[] = {INT64_MIN, INT64_MIN + 1, -(1LL << 59) - 1, -(1LL << 59), -(1LL << 59) + 1, -1, 0, (1LL << 31) - 1, 1LL << 59, INT64_MAX - 1, INT64_MAX};
static const unsigned long long kCounts[] = {0, 1, 2, 255, 256, 257, 65535, 1u << 20, 0x7fffffffULL, 0x80000000ULL, 0xffffffffULL};

static size_t declared_len(const std::string& b) {  // what the (possibly edited) v2/v1 header makes cctz allocate
  using namespace ref::tzif_detail;
  Hdr h;
  if (!read_hdr(b, 0, &h)) return 0;
  if (b[4] == '\0') return block_len(h, 4);
  size_t p = 44 + block_len(h, 4);
  if (p > b.size()) p = b.size();
  Hdr h2;
  if (!read_hdr(b, p, &h2)) return 0;
  return block_len(h2, 8);
}

struct Sel { long long next = 0; int shard = 0, nshards = 1; const std::set<long long>* skip = nullptr; long long only = -1; long long resume_from = -1;
  // assigns the next case index; true if this process must build and run that case
  bool take(long long* me) { *me = next++; if (only >= 0) return *me == only; return (*me % nshards) == shard && *me >= resume_from && !(skip && skip->count(*me)); } };
typedef std::function<void(long long idx, const std::string& desc, const std::string& bytes, const Dev& dev)> Emit;

// Every mutant costs an index whether or not this process builds it, so indices are stable across processes and builds.
#define CASE(DESC, BUILD) do { long long me_; if (sel.take(&me_)) { std::string m = s; BUILD; if (declared_len(m) <= cap) emit(me_, std::string(DESC) + ":" + sd.name, m, nodev); } } while (0)

static void gen_seed(const Seed& sd, const std::vector<Seed>& all, const std::vector<std::string>& footers, bool thorough, size_t cap, Sel& sel, const Emit& emit) {
  const std::string& s = sd.bytes;
  const Layout L = layout_of(s);
  const Dev nodev;
  // A non-primary seed (thorough tier: every distinct shipped zone beyond the primary set) gets every operator, but
  // bit flips only outside the transition-time / type-index arrays (the time and type-index operators cover those),
  // every 16th corpus footer, the sub-sampled count pairs, and splices against the primary seeds only.
  const bool lite = !sd.primary;
  if (lite) thorough = false;
  CASE("pristine", (void)0);
  // O1 truncation to every length
  for (size_t n = 0; n < s.size(); ++n) CASE("truncate:" + std::to_string(n), m.resize(n));
  // O8 every byte: 8 bit flips, 0x00, 0xff
  const bool small = s.size() <= 4096 && !lite;
  for (size_t i = 0; i < s.size(); ++i) {
    if (!small && !(i < 100 || (L.ok && i >= L.h2 && i < L.h2 + 44) || (L.ok && i >= L.tt))) continue;
    for (int bit = 0; bit < 8; ++bit) CASE("bitflip:" + std::to_string(i) + "." + std::to_string(bit), m[i] = static_cast<char>(m[i] ^ (1 << bit)));
    if (s[i] != 0) CASE("byte00:" + std::to_string(i), m[i] = 0);
    if (static_cast<unsigned char>(s[i]) != 0xff) CASE("byteff:" + std::to_string(i), m[i] = static_cast<char>(0xff));
  }
  if (!L.ok) return;
  // O2 header counts
  std::vector<size_t> hdrs = {0};
  if (L.h2) hdrs.push_back(L.h2);
  struct CE { size_t pos; unsigned long long v; };
  std::vector<CE> count_edits;
  for (size_t hp : hdrs) for (int f = 0; f < 6; ++f) {
    const size_t pos = hp + 20 + 4 * f;
    const unsigned long long cur = ref::tzif_detail::be(s, pos, 4);
    std::vector<unsigned long long> vals(kCounts, kCounts + sizeof(kCounts) / sizeof(kCounts[0]));
    if (cur > 0) vals.push_back(cur - 1);
    vals.push_back(cur + 1);
    for (unsigned long long v : vals) {
      if (v == cur) continue;
      count_edits.push_back({pos, v});
      CASE("count:" + std::to_string(pos) + "=" + std::to_string(v), put_be(m, pos, v, 4));
      // padded: zero bytes so that the declared length exists (then a footer again for the v2 block)
      CASE("count-padded:" + std::to_string(pos) + "=" + std::to_string(v), {
        put_be(m, pos, v, 4);
        size_t want = declared_len(m);
        if (want <= cap && want > 0) {
          if (hp == 0 && L.h2) { if (want > L.h2 - 44) m.insert(L.h2, want - (L.h2 - 44), '\0'); }
          else { size_t have = s.size() - (hp + 44); if (want > have) { m.append(want - have, '\0'); m += "\nEST5EDT,M3.2.0,M11.1.0\n"; } }
        }
      });
    }
  }
  // O3 version bytes / magic
  for (size_t hp : hdrs) {
    for (int v : {0, 49, 50, 51, 52, 53, 0xff}) CASE("version:" + std::to_string(hp) + "=" + std::to_string(v), m[hp + 4] = static_cast<char>(v));
    for (int k = 0; k < 4; ++k) CASE("magic:" + std::to_string(hp + k), m[hp + k] = 'X');
  }
  // O4 type index bytes
  for (size_t i = 0; i < L.timecnt; ++i) for (unsigned v : {0u, static_cast<unsigned>(L.typecnt ? L.typecnt - 1 : 0), static_cast<unsigned>(L.typecnt), 255u}) {
    if (static_cast<unsigned char>(s[L.idx + i]) == v) continue;
    CASE("typeidx:" + std::to_string(i) + "=" + std::to_string(v), m[L.idx + i] = static_cast<char>(v));
  }
  // O5 ttinfo fields
  for (size_t i = 0; i < L.typecnt; ++i) {
    const size_t p = L.tt + 6 * i;
    for (long long v : {0LL, 86399LL, -86399LL, 86400LL, -86400LL, 86401LL, -86401LL, 2147483647LL, -2147483648LL}) CASE("utoff:" + std::to_string(i) + "=" + std::to_string(v), put_be(m, p, static_cast<unsigned long long>(v), 4));
    for (int v : {0, 1, 2, 255}) CASE("isdst:" + std::to_string(i) + "=" + std::to_string(v), m[p + 4] = static_cast<char>(v));
    for (unsigned v : {0u, static_cast<unsigned>(L.charcnt ? L.charcnt - 1 : 0), static_cast<unsigned>(L.charcnt), 255u}) CASE("abbrind:" + std::to_string(i) + "=" + std::to_string(v), m[p + 5] = static_cast<char>(v));
  }
  // O6 8-byte (or 4-byte) times
  struct TE { size_t i; long long v; };
  std::vector<TE> time_edits;
  for (size_t i = 0; i < L.timecnt; ++i) {
    if (!thorough && L.timecnt > 40 && !(i < 6 || i + 6 >= L.timecnt || i % 16 == 0)) continue;
    std::vector<long long> vals(kInteresting64, kInteresting64 + sizeof(kInteresting64) / sizeof(kInteresting64[0]));
    const long long cur = ref::tzif_detail::sbe(s, L.times + i * L.tl, L.tl);
    if (i > 0) { long long pv = ref::tzif_detail::sbe(s, L.times + (i - 1) * L.tl, L.tl); vals.push_back(pv); vals.push_back(pv - 1); }
    if (i + 1 < L.timecnt) vals.push_back(ref::tzif_detail::sbe(s, L.times + (i + 1) * L.tl, L.tl));
    vals.push_back(-70000000000LL);  // year -248
    for (long long v : vals) {
      if (v == cur) continue;
      if (L.tl == 4 && (v > INT32_MAX || v < INT32_MIN)) continue;
      time_edits.push_back({i, v});
      CASE("time:" + std::to_string(i) + "=" + std::to_string(v), put_be(m, L.times + i * L.tl, static_cast<unsigned long long>(v), L.tl));
    }
  }
  // O7 abbreviation NULs
  for (size_t i = 0; i < L.charcnt; ++i) if (s[L.chars + i] == '\0') CASE("abbrnul:" + std::to_string(i), m[L.chars + i] = 'X');
  // O9 footer replacement
  if (L.h2) {
    for (size_t k = 0; k < footers.size(); ++k) {
      if (lite && (k % 16) != 0 && k + 40 < footers.size()) continue;
      CASE("footer:" + std::to_string(k), m = s.substr(0, L.footer) + "\n" + footers[k] + "\n");
    }
    CASE("footer:unterminated", m = s.substr(0, L.footer) + "\n" + "EST5EDT,M3.2.0,M11.1.0");
    CASE("footer:no-leading-newline", m = s.substr(0, L.footer) + "EST5\n");
  }
  // O10 splice: counts / headers of another seed over this seed's body
  for (const Seed& o : all) {
    if (&o == &sd || (lite && !o.primary)) continue;
    const Layout LO = layout_of(o.bytes);
    if (!LO.ok) continue;
    CASE("splice-counts-of:" + o.name, { for (int k = 0; k < 24; ++k) { m[20 + k] = o.bytes[20 + k]; if (L.h2 && LO.h2) m[L.h2 + 20 + k] = o.bytes[LO.h2 + 20 + k]; } });
    if (L.h2 && LO.h2) CASE("splice-header-of:" + o.name, m = o.bytes.substr(0, LO.h2 + 44) + s.substr(L.h2 + 44));
  }
  // environment deviations
  for (int k = 0; k < 40; ++k) for (int mode = 0; mode < 3; ++mode) { long long me_; if (sel.take(&me_)) { Dev d; d.read_k = k; d.read_mode = mode; emit(me_, "env-read:" + std::to_string(k) + "." + std::to_string(mode) + ":" + sd.name, s, d); } }
  { long long me_; if (sel.take(&me_)) { Dev d; d.skip_fails = true; emit(me_, "env-skipfails:" + sd.name, s, d); } }
  { long long me_; if (sel.take(&me_)) { Dev d; d.big_version = true; emit(me_, "env-bigversion:" + sd.name, s, d); } }
  // ---- depth 2 ----
  {
    std::vector<CE> ce2;
    for (auto& c : count_edits) if (c.pos >= (L.h2 ? L.h2 : 0)) ce2.push_back(c);
    for (size_t a = 0; a < ce2.size(); ++a) for (size_t b = a + 1; b < ce2.size(); ++b) {
      if (ce2[a].pos == ce2[b].pos) continue;
      if (!thorough && ((a * 31 + b) % 4) != 0 && ce2[a].v > 300 && ce2[b].v > 300) continue;
      CASE("count2:" + std::to_string(ce2[a].pos) + "=" + std::to_string(ce2[a].v) + "," + std::to_string(ce2[b].pos) + "=" + std::to_string(ce2[b].v), { put_be(m, ce2[a].pos, ce2[a].v, 4); put_be(m, ce2[b].pos, ce2[b].v, 4); });
    }
  }
  if (L.h2) {
    const char* ff[] = {"", "EST5", "EST5EDT,M3.2.0,M11.1.0", "AEST-10AEDT,M10.1.0,M4.1.0/3", "XXX-2<+03>-3,0/0,J365/25", "AAA3BBB,J60/-167,300/167", "<+14>-14<+13>-13,M1.1.0/0,M12.5.6/26"};
    for (auto& te : time_edits) {
      if (!(te.i < 2 || te.i + 2 >= L.timecnt)) continue;
      for (const char* f : ff) CASE("time-x-footer:" + std::to_string(te.i) + "=" + std::to_string(te.v) + "," + f, { m = s.substr(0, L.footer) + "\n" + f + "\n"; put_be(m, L.times + te.i * L.tl, static_cast<unsigned long long>(te.v), L.tl); });
    }
  }
  {
    const size_t hp = L.h2 ? L.h2 : 0;
    for (unsigned long long tc : {1ULL, static_cast<unsigned long long>(L.typecnt ? L.typecnt - 1 : 0), static_cast<unsigned long long>(L.typecnt + 1), 255ULL, 256ULL, 257ULL}) {
      for (size_t i = 0; i < L.timecnt; i += (L.timecnt > 12 ? L.timecnt / 6 : 1)) for (unsigned v : {0u, static_cast<unsigned>(tc ? tc - 1 : 0), static_cast<unsigned>(tc & 0xff), 255u})
        CASE("typeidx-x-typecnt:" + std::to_string(i) + "=" + std::to_string(v) + "," + std::to_string(tc), { put_be(m, hp + 20 + 16, tc, 4); m[L.idx + i] = static_cast<char>(v); });
    }
  }
  for (auto& c : count_edits) for (size_t cut : {L.times, L.tt, L.chars, L.end_block}) {
    if (cut >= s.size() || c.pos + 4 > cut) continue;
    CASE("truncate-x-count:" + std::to_string(cut) + "," + std::to_string(c.pos) + "=" + std::to_string(c.v), { m.resize(cut); put_be(m, c.pos, c.v, 4); });
  }
}

// Structure-aware degenerate files: arbitrary header counts with a CONSISTENT body (every block has the
// size its header declares, footer in place), so that the decoder is driven past the count checks.
static std::string degenerate_block(int tl, char vbyte, size_t timecnt, size_t typecnt, size_t charcnt, size_t leapcnt, size_t isstd, size_t isut, int idx_mode, int dst_mode = 0) {
  std::string o = "TZif";
  o.push_back(vbyte);
  o.append(15, '\0');
  auto be4 = [&](unsigned long long v) { for (int i = 3; i >= 0; --i) o.push_back(static_cast<char>((v >> (8 * i)) & 0xff)); };
  be4(isut); be4(isstd); be4(leapcnt); be4(timecnt); be4(typecnt); be4(charcnt);
  for (size_t i = 0; i < timecnt; ++i) { long long t = -1000000000LL + static_cast<long long>(i) * 40000000LL; for (int k = tl - 1; k >= 0; --k) o.push_back(static_cast<char>((static_cast<unsigned long long>(t) >> (8 * k)) & 0xff)); }
  for (size_t i = 0; i < timecnt; ++i) o.push_back(static_cast<char>(idx_mode == 0 ? 0 : idx_mode == 1 ? (typecnt ? (i % typecnt) : 0) : (typecnt ? typecnt - 1 : 0)));
  for (size_t i = 0; i < typecnt; ++i) { unsigned long long off = static_cast<unsigned long long>(static_cast<long long>((i % 2) ? 3600 : -18000)); for (int k = 3; k >= 0; --k) o.push_back(static_cast<char>((off >> (8 * k)) & 0xff)); o.push_back(static_cast<char>(dst_mode == 0 ? (i % 2) : dst_mode == 1 ? 1 : 0)); o.push_back(static_cast<char>(charcnt ? (i * 4) % charcnt : 0)); }
  for (size_t i = 0; i < charcnt; ++i) o.push_back((i % 4) == 3 ? '\0' : static_cast<char>('A' + (i % 4)));
  for (size_t i = 0; i < leapcnt; ++i) { o.append(tl, '\0'); o.append(4, '\0'); }
  o.append(isstd, '\0');
  o.append(isut, '\0');
  return o;
}

static void gen_degenerate(bool thorough, size_t cap, Sel& sel, const Emit& emit) {
  const Dev nodev;
  struct H1 { size_t timecnt, typecnt, charcnt, leapcnt, isstd, isut; const char* name; };
  const H1 v1s[] = {{0, 1, 1, 0, 0, 0, "stub"}, {0, 0, 0, 0, 0, 0, "zero"}, {0, 1, 1, 1, 0, 0, "leap"}, {0, 1, 1, 0, 2, 0, "isstd-mismatch"}, {2, 2, 4, 0, 2, 2, "full"}};
  const size_t tcs[] = {0, 1, 2}, tys[] = {0, 1, 2, 255, 256, 257}, ccs[] = {0, 1, 4, 8};
  const char* foots[] = {"", "EST5", "EST5EDT,M3.2.0,M11.1.0", "BST-1"};
  for (const H1& a : v1s) for (size_t tc : tcs) for (size_t ty : tys) for (size_t cc : ccs) for (int isx = 0; isx < 3; ++isx) for (size_t lc = 0; lc < 2; ++lc) for (int im = 0; im < 3; ++im) {
    if (!thorough && im == 1 && ty > 2) continue;
    const size_t ind = isx == 0 ? 0 : isx == 1 ? ty : ty + 1;
    for (const char* f : foots) for (int dm = 0; dm < 3; ++dm) {
      if (dm && (&a != &v1s[0] || lc)) continue;   // all-DST / no-DST type tables: under the ordinary version-1 stub, no leap records
      long long me_;
      if (!sel.take(&me_)) continue;
      std::string m = degenerate_block(4, '2', a.timecnt, a.typecnt, a.charcnt, a.leapcnt, a.isstd, a.isut, 0) + degenerate_block(8, '2', tc, ty, cc, lc, ind, ind, im, dm) + "\n" + f + "\n";
      if (declared_len(m) > cap) continue;
      emit(me_, std::string("degenerate:v1=") + a.name + ",timecnt=" + std::to_string(tc) + ",typecnt=" + std::to_string(ty) + ",charcnt=" + std::to_string(cc) + ",ind=" + std::to_string(ind) + ",leap=" + std::to_string(lc) + ",idx=" + std::to_string(im) + ",dst=" + std::to_string(dm) + ",footer=" + f + ":synthetic", m, nodev);
    }
    // and as a version-1 file (single block)
    long long me_;
    for (int dm = 0; dm < 3; ++dm) if (sel.take(&me_)) {
      std::string m = degenerate_block(4, '\0', tc, ty, cc, lc, ind, ind, im, dm);
      emit(me_, std::string("degenerate-v1:dst=") + std::to_string(dm) + ",timecnt=" + std::to_string(tc) + ",typecnt=" + std::to_string(ty) + ",charcnt=" + std::to_string(cc) + ",ind=" + std::to_string(ind) + ",leap=" + std::to_string(lc) + ",idx=" + std::to_string(im) + ":synthetic", m, nodev);
    }
  }
}

// typecnt-heavy synthetic seeds (many types, all DST, etc.) that no shipped file resembles
static std::vector<Seed> synthetic_seeds(bool thorough) {
  std::vector<Seed> out;
  tzgen::GenStats st;
  struct S { const char* footer; int kind; int v; };
  std::vector<S> ss = {{"", tzgen::K_ODD, 1}, {"EST5EDT,M3.2.0,M11.1.0", tzgen::K_FAT, 2}, {"AAA3BBB,J60,J300", tzgen::K_BETWEEN, 3}, {"XXX-2<+03>-3,0/0,J365/25", tzgen::K_ONE, 3}};
  if (thorough) { ss.push_back({"CET-1CEST,M3.5.0,M10.5.0/3", tzgen::K_AFTER, 2}); ss.push_back({"EST5", tzgen::K_NONE, 2}); ss.push_back({"<+1245>-12:45<+1345>,M9.5.0/2:45,M4.1.0/3:45", tzgen::K_LEGACY_A, 2}); ss.push_back({"AAA3BBB,0/0,365/23", tzgen::K_BEFORE, 4}); }
  int n = 0;
  for (auto& s : ss) { tzgen::GenZone z; if (tzgen::build_zone({s.footer, "seed"}, s.kind, s.v, &z, &st)) out.push_back({"syn" + std::to_string(n), z.bytes}); ++n; }
  // hand-made stress files
  {
    tzgen::TzSpec sp; sp.version = 2;
    for (int i = 0; i < 257; ++i) sp.types.push_back({i * 60 - 7000, true, "D" + std::to_string(i % 40)});
    sp.times = {1000000000LL}; sp.idx = {0}; sp.footer = "";
    out.push_back({"stress-257-dst-types", tzgen::write_tzif(sp)});
  }
  {
    tzgen::TzSpec sp; sp.version = 2;
    for (int i = 0; i < 256; ++i) sp.types.push_back({i * 60 - 7000, (i % 2) == 1, "T" + std::to_string(i)});
    for (int i = 0; i < 256; ++i) { sp.times.push_back(-1000000000LL + i * 4000000LL); sp.idx.push_back(i); }
    sp.footer = "EST5EDT,M3.2.0,M11.1.0";
    out.push_back({"stress-256-types", tzgen::write_tzif(sp)});
  }
  if (thorough) {  // (quick: the footer-replacement operator on UTC / Etc seeds already produces this shape)
    tzgen::TzSpec sp; sp.version = 2; sp.types = {{0, false, "UTC"}}; sp.footer = "EST5EDT,M3.2.0,M11.1.0";
    out.push_back({"stress-no-transitions-dst-footer", tzgen::write_tzif(sp)});
  }
  return out;
}

int main(int argc, char** argv) {
  hz::Args a = hz::parse_args(argc, argv);
  cctz_extension::zone_info_source_factory = Factory;
  g_primary = !a.has("--hash-only");
  hz::mark_cases() = true;
  hz::Result total;
  const std::string dir = a.repo + "/testdata/zoneinfo";
  std::vector<Seed> seeds;
  const char* quick_names[] = {"UTC", "Etc/GMT+5", "America/New_York", "Europe/Lisbon", "Asia/Kathmandu", "Australia/Lord_Howe", "Africa/Monrovia", "Pacific/Apia", "America/Nuuk", "Asia/Gaza"};
  std::set<std::string> have;
  for (const char* n : quick_names) { std::string b = glue::read_file(dir + "/" + n); if (!b.empty() && have.insert(b).second) seeds.push_back({n, b}); }
  for (auto& s : synthetic_seeds(a.thorough())) seeds.push_back(s);
  // thorough: every DISTINCT shipped zone file as a further (non-primary) seed
  if (a.thorough()) for (auto& n : glue::shipped_zone_names(dir)) { std::string b = glue::read_file(dir + "/" + n); if (!b.empty() && have.insert(b).second) { seeds.push_back({n, b}); seeds.back().primary = false; } }
  total.counters["seeds_primary"] = 0;
  for (auto& s : seeds) if (s.primary) total.counters["seeds_primary"]++;
  total.counters["seeds"] = seeds.size();
  // footer corpus: C16's sentences (valid and near-miss) + consumer-stress footers
  std::vector<std::string> sent, acc, footers;
  c16_sentences(false, &sent, &acc);
  for (size_t i = 0; i < sent.size(); i += (a.thorough() ? 1 : 3)) if (sent[i].find('\n') == std::string::npos) footers.push_back(sent[i]);
  const char* stress[] = {"AAA24:59:59BBB-24:59:59,J365/167,0/-167", "AAA-24:59:59BBB24:59:59,0/-167,J365/167", "EST5EDT,J1/-167,J365/167", "EST5EDT,0/0,365/167", "EST5EDT,M1.1.0/-167,M12.5.6/167",
                          "<ABCDEFGHIJKLMNOPQRSTUVWXYZABCDEFGHIJKLMNOPQRSTUVWXYZ>0", "EST5EDT,J59/24,J60/0", "EST5EDT,J60,J60", "EST5EDT,M3.2.0,M3.2.0", "EST5EDT,M3.2.0/2,M3.2.0/3", "EST5EDT5,M3.2.0,M11.1.0",
                          "EST5EDT4:59:59,0/0,J365/24:00:01", "EST5EDT,0/0,J365/25", "EST5EDT,0/0,J365/24", "EST5EDT,0/0,J365/26", "AAA0BBB-24,M6.1.0/0,M6.1.0/25", "AAA-24BBB0,J100,J101"};
  for (const char* f : stress) footers.push_back(f);
  footers.push_back(std::string(300, 'A') + "5");
  footers.push_back(std::string("EST5EDT,M3.2.0") + std::string(1, '\0') + ",M11.1.0");
  footers.push_back(std::string("EST") + std::string(1, '\0') + "5");
  footers.push_back("\xff\xfe\xfd" "5");
  footers.push_back("<\xff>5<\x80>,M3.2.0,M11.1.0");
  footers.push_back(std::string(70000, 'A') + "5");
  footers.push_back("<" + std::string(300, '+') + ">5<" + std::string(300, '-') + ">4,M3.2.0,M11.1.0");
  total.counters["footer_corpus"] = footers.size();
  const size_t cap = (a.thorough() ? 512u : 64u) << 20;
  std::string hashfile = a.get("--hashes");
  if (!hashfile.empty()) g_hashfd = open(hashfile.c_str(), O_RDWR | O_CREAT, 0644);

  if (a.has("--case")) {
    const long long want = atoll(a.get("--case").c_str());
    Sel sel; sel.only = want;
    auto one = [&](long long idx, const std::string& d, const std::string& b, const Dev& dv) { printf("case %lld: %s (%zu bytes) %s\n", idx, d.c_str(), b.size(), facts_of(b).c_str()); run_case(idx, d, b, dv, total); };
    gen_degenerate(a.thorough(), cap, sel, one);
    for (auto& sd : seeds) gen_seed(sd, seeds, footers, a.thorough(), cap, sel, one);
    return hz::finish(a, total);
  }
  const int nshards = 256;
  hz::PoolOpts po; po.workers = a.workers; po.hang_s = 8; po.hang_is_violation = true; po.max_restarts = 400; po.crash_is_violation = g_primary; po.resume = true;
  po.crash_key = [](const std::string& what) {   // the fact flags of the input (everything the known-findings predicates read)
    size_t p = what.find("facts=["), e = what.find(']', p == std::string::npos ? 0 : p);
    if (p == std::string::npos || e == std::string::npos) return what.substr(0, 80);
    std::istringstream is(what.substr(p + 7, e - p - 7));
    std::string tok, flags;
    while (is >> tok) if (tok.compare(0, 8, "timecnt=") != 0 && tok.compare(0, 8, "typecnt=") != 0) flags += tok + " ";
    return flags;
  };
  hz::run_shards(nshards, po, a.workdir, [&](const hz::ShardCtl& ctl, hz::Result& r) {
    Sel sel; sel.shard = ctl.shard; sel.nshards = nshards; sel.skip = &ctl.skip; sel.resume_from = ctl.resume_from;
    // the fixed-size degenerate family first, then the seeds in order: a deadline then only cuts a suffix of the
    // index space, and every index below the cut denotes the same input in every build
    gen_degenerate(a.thorough(), cap, sel, [&](long long me, const std::string& d, const std::string& b, const Dev& dv) {
      hz::begin_case(me, d + " " + facts_of(b));
      run_case(me, d, b, dv, r);
    });
    for (auto& sd : seeds) {
      if (a.time_up()) { r.exhaustive = false; r.note("deadline before seed " + sd.name); break; }
      gen_seed(sd, seeds, footers, a.thorough(), cap, sel, [&](long long me, const std::string& d, const std::string& b, const Dev& dv) {
        hz::begin_case(me, d + " " + facts_of(b));
        run_case(me, d, b, dv, r);
      });
    }
    if (ctl.shard == 0) r.counters["cases_total"] = sel.next;
  }, &total, [&](long long cid, const std::string&) -> std::vector<std::string> { return {"--case", std::to_string(cid)}; });
  total.sample("{\"case\":\"time:235=9223372036854775807:America/New_York\",\"meaning\":\"last 8-byte transition time of the seed set to INT64_MAX\"}");
  total.sample("{\"case\":\"count2:<pos>=257,<pos>=0:Asia/Gaza\",\"meaning\":\"two header counts of the v2 header edited at once\"}");
  total.sample("{\"case\":\"env-read:3.1:Europe/Lisbon\",\"meaning\":\"the 4th Read() of the data source returns one byte less than asked\"}");
  if (g_hashfd >= 0) close(g_hashfd);
  return hz::finish(a, total);
}
