// E1 harness for C15 (fixed-offset zones and names; exhaustive on the offset
// axis) and C16 (POSIX TZ strings: exact acceptance, fully determined result).
#include <climits>

#include "../common/harness.h"
#include "../common/impl_glue.h"
#include "../common/ref_fixed.h"
#include "../common/ref_zone.h"
#include "../common/tzgen.h"
#include "../common/posix_corpus.h"
#include "time_zone_fixed.h"
#include "time_zone_posix.h"

using ref::i128;
using ref::Civil;
typedef cctz::time_zone::civil_lookup CL;

static std::string g_prop;

static Civil civil_of(const cctz::civil_second& c) { return Civil{c.year(), c.month(), c.day(), c.hour(), c.minute(), c.second()}; }

// ---------------------------------------------------------------------------
// C15
static const long long kInst[9] = {INT64_MIN, -(1LL << 59), -(1LL << 31), -1, 0, 1, 1LL << 31, 1LL << 59, INT64_MAX};

static void c15_offset(long long o, bool all9, hz::Result& r) {
  std::vector<std::string> ra = {"--offset", std::to_string(o)};
  const bool utc = ref::fixed_is_utc(o);
  const std::string wname = ref::fixed_name(o), wabbr = ref::fixed_abbr(o);
  const std::string gname = cctz::FixedOffsetToName(cctz::seconds(o));
  const std::string gabbr = cctz::FixedOffsetToAbbr(cctz::seconds(o));
  r.count("evaluations", 2);
  const char* cls = utc ? (o == 0 ? "C15:zero" : "C15:beyond-24h") : (o < 0 ? ((-o) % 60 ? "C15:neg-with-seconds" : (-o) % 3600 ? "C15:neg-with-minutes" : "C15:neg-hours") : (o % 60 ? "C15:pos-with-seconds" : o % 3600 ? "C15:pos-with-minutes" : "C15:pos-hours"));
  r.cls(cls);
  if (gname != wname) { r.violation("C15:to-name", "FixedOffsetToName(" + std::to_string(o) + ") = '" + gname + "' expected '" + wname + "'", ra); return; }
  if (gabbr != wabbr) { r.violation("C15:to-abbr", "FixedOffsetToAbbr(" + std::to_string(o) + ") = '" + gabbr + "' expected '" + wabbr + "'", ra); return; }
  cctz::seconds back(12345);
  r.count("evaluations");
  if (!cctz::FixedOffsetFromName(gname, &back) || back.count() != (utc ? 0 : o)) { r.violation("C15:from-name", "FixedOffsetFromName('" + gname + "') does not map back to " + std::to_string(o), ra); return; }
  const cctz::time_zone tz = cctz::fixed_time_zone(cctz::seconds(o));
  r.count("evaluations");
  if (utc) {
    if (tz != cctz::utc_time_zone()) { r.violation("C15:utc-identity", "fixed_time_zone(" + std::to_string(o) + ") is not UTC", ra); return; }
  } else {
    if (tz.name() != wname) { r.violation("C15:zone-name", "fixed_time_zone(" + std::to_string(o) + ").name() = '" + tz.name() + "'", ra); return; }
    // the name loads, without any zone data, to an equal zone
    int before = 0;
    for (auto& kv : glue::registry().calls) before += kv.second;
    cctz::time_zone tz2;
    const bool ok = cctz::load_time_zone(wname, &tz2);
    int after = 0;
    for (auto& kv : glue::registry().calls) after += kv.second;
    r.count("evaluations");
    if (!ok || tz2 != tz) { r.violation("C15:name-loads", "load_time_zone('" + wname + "') ok=" + std::to_string(ok) + " equal=" + std::to_string(tz2 == tz), ra); return; }
    if (after != before) { r.violation("C15:factory-consulted", "loading '" + wname + "' consulted the zone data source", ra); return; }
  }
  const long long eff = utc ? 0 : o;
  for (int i = 0; i < 9; ++i) {
    if (!all9 && !(i == 0 || i == 4 || i == 8)) continue;
    const long long t = kInst[i];
    const auto al = tz.lookup(glue::tp_of(t));
    const Civil want = ref::civil_from_secs(static_cast<i128>(t) + eff);
    r.count("evaluations");
    if (al.offset != eff || al.is_dst || wabbr != al.abbr || civil_of(al.cs) != want) {
      r.violation("C15:lookup", "fixed_time_zone(" + std::to_string(o) + ").lookup(" + std::to_string(t) + ") = off " + std::to_string(al.offset) + " dst " + std::to_string(al.is_dst) + " abbr '" + al.abbr + "' cs " + ref::civil_str(civil_of(al.cs)) + "; expected abbr '" + wabbr + "' cs " + ref::civil_str(want), ra);
      return;
    }
    if (i > 0 && i < 8) {
      const CL cl = tz.lookup(al.cs);
      r.count("evaluations");
      if (cl.kind != CL::UNIQUE || glue::unix_of(cl.pre) != t) { r.violation("C15:lookup-civil", "civil round trip in fixed zone " + std::to_string(o) + " at " + std::to_string(t), ra); return; }
    }
  }
}

static void c15_name(const std::string& s, hz::Result& r, const char* cls) {
  long long want = 0;
  const bool wacc = ref::fixed_from_name(s, &want);
  cctz::seconds got(777);
  const bool gacc = cctz::FixedOffsetFromName(s, &got);
  r.count("evaluations");
  r.cls(std::string("C15:name:") + cls + (wacc ? ":accept" : ":reject"));
  std::vector<std::string> ra = {"--name-hex", hz::hex(s)};
  if (gacc != wacc || (wacc && got.count() != want)) {
    r.violation(std::string("C15:name-acceptance:") + (gacc ? "accepted" : "rejected"), "FixedOffsetFromName(" + hz::jstr(s) + ") = " + (gacc ? "accept " + std::to_string(got.count()) : "reject") + "; reference: " + (wacc ? "accept " + std::to_string(want) : "reject"), ra);
    return;
  }
  // end to end: a fixed name never consults the data source; anything else does (and fails => UTC)
  if (s.find('\0') != std::string::npos && !wacc) return;  // (names with NUL are not usable as zone keys end to end)
  int before = 0;
  for (auto& kv : glue::registry().calls) before += kv.second;
  cctz::time_zone tz;
  const bool ok = cctz::load_time_zone(s, &tz);
  int after = 0;
  for (auto& kv : glue::registry().calls) after += kv.second;
  r.count("evaluations");
  if (wacc) {
    const auto al = tz.lookup(glue::tp_of(0));
    if (!ok || after != before || al.offset != want || al.is_dst) r.violation("C15:name-load", "load_time_zone(" + hz::jstr(s) + ") ok=" + std::to_string(ok) + " factory_calls=" + std::to_string(after - before) + " offset=" + std::to_string(al.offset), ra);
  } else {
    if (ok || tz != cctz::utc_time_zone()) r.violation("C15:nonname-load", "load_time_zone(" + hz::jstr(s) + ") succeeded although it is neither a fixed-offset name nor served data", ra);
  }
}

static void c15_run(const hz::ShardCtl& ctl, int nshards, const hz::Args& a, hz::Result& r) {
  for (long long o = -90000 + ctl.shard; o <= 90000; o += nshards) {
    if (((o + 90000) / nshards) % 64 == 0) hz::begin_case(o, "C15 offset " + std::to_string(o));
    const long long ao = o < 0 ? -o : o;
    c15_offset(o, a.thorough() || ao >= 86390 || ao <= 61, r);
  }
  if (ctl.shard != 0) return;
  // offsets far beyond 24 hours, in particular those whose low 32 bits look like a small offset
  {
    hz::begin_case((1 << 20) - 1, "C15 64-bit offsets");
    std::vector<long long> big = {86401, 90001, 100000, (1LL << 31) - 1, 1LL << 31, (1LL << 31) + 1, (1LL << 32) - 1, 1LL << 32, (1LL << 32) + 1, (1LL << 32) + 3600, (1LL << 32) + 86400, (1LL << 32) - 3600,
                                  (5LL << 32) + 45296, (1LL << 33) + 30, (1LL << 40), (1LL << 62) + 7, 1000000000000LL, INT64_MAX, INT64_MAX - 1, INT64_MAX - 86399};
    for (long long b : big) { c15_offset(b, true, r); if (b != INT64_MIN) c15_offset(-b, true, r); }
    c15_offset(INT64_MIN, true, r);
    c15_offset(INT64_MIN + 1, true, r);
    for (int k = 1; k <= 40; ++k) for (long long low : {-86400LL, -3600LL, -1LL, 0LL, 1LL, 59LL, 3600LL, 45296LL, 86400LL}) { c15_offset((static_cast<long long>(k) << 32) + low, false, r); c15_offset(-(static_cast<long long>(k) << 32) + low, false, r); }
  }
  hz::begin_case(1 << 20, "C15 names");
  // name strings: single edits (and pairs on digit positions) of canonical names
  const long long base[] = {1, -1, 59, -59, 60, -60, 61, -61, 3599, -3599, 3600, -3600, 3661, -3661, 20700, -12600, 35999, 36000, -36000, 86399, -86399, 86400, -86400, 45296, -45296};
  const std::string sigma = std::string("05699+-:/U ") + std::string(1, '\0') + "\xff";
  for (long long o : base) {
    const std::string s = ref::fixed_name(o);
    c15_name(s, r, "canonical");
    for (size_t i = 0; i <= s.size(); ++i) {
      if (i < s.size()) { std::string d = s; d.erase(i, 1); c15_name(d, r, "delete"); }
      for (char c : sigma) {
        if (i < s.size()) { std::string e = s; e[i] = c; c15_name(e, r, "replace"); }
        std::string f = s; f.insert(i, 1, c); c15_name(f, r, "insert");
      }
    }
    // all pairs of edits on the six digit positions
    const int dp[6] = {10, 11, 13, 14, 16, 17};
    const std::string dsig = std::string("0569") + std::string(1, '\0') + ":";
    for (int x = 0; x < 6; ++x) for (int y = x + 1; y < 6; ++y) for (char c1 : dsig) for (char c2 : dsig) {
      std::string e = s; e[dp[x]] = c1; e[dp[y]] = c2; c15_name(e, r, "replace2");
    }
  }
  if (a.thorough()) {
    // all PAIRS of single-character replacements over the whole name, for six base names
    const long long b2[] = {1, -1, 3661, -45296, 86400, -86399};
    const std::string sig2 = std::string("059+-:/") + std::string(1, '\0');
    for (long long o : b2) {
      const std::string s = ref::fixed_name(o);
      for (size_t x = 0; x < s.size(); ++x) for (size_t y = x + 1; y < s.size(); ++y) for (char c1 : sig2) for (char c2 : sig2) {
        std::string e = s; e[x] = c1; e[y] = c2; c15_name(e, r, "replace2-anywhere");
      }
    }
  }
  const char* lit[] = {"UTC", "UTC0", "utc", "UTC00", "UTC+0", "UTC-0", "Fixed/UTC", "", "Fixed/UTC+00:00:00", "Fixed/UTC-00:00:00", "Fixed/UTC+24:00:00", "Fixed/UTC-24:00:00",
                       "Fixed/UTC+24:00:01", "Fixed/UTC+23:59:60", "Fixed/UTC+00:99:00", "Fixed/UTC+00:00:99", "Fixed/UTC+99:00:00", "fixed/UTC+01:00:00", "Fixed/utc+01:00:00", "Fixed/UTC +1:00:00",
                       "Fixed/UTC+1:00:00", "Fixed/UTC+01:00", "Fixed/UTC+01:00:00 ", " Fixed/UTC+01:00:00", "Fixed/UTC+01-00-00", "Fixed/UTC*01:00:00", "Fixed/GMT+01:00:00", "GMT", "Z", "UTC1"};
  for (const char* l : lit) c15_name(l, r, "literal");
}

// ---------------------------------------------------------------------------
// C16
struct Parsed { bool ok; cctz::PosixTimeZone p; };
static Parsed parse_prefilled(const std::string& s, int fill) {
  Parsed q;
  memset(&q.p.std_offset, fill, sizeof q.p.std_offset);
  memset(&q.p.dst_offset, fill, sizeof q.p.dst_offset);
  memset(&q.p.dst_start, fill, sizeof q.p.dst_start);
  memset(&q.p.dst_end, fill, sizeof q.p.dst_end);
  q.ok = cctz::ParsePosixSpec(s, &q.p);
  return q;
}
static int raw_fmt(const cctz::PosixTransition& t) {  // fmt may hold garbage: never load it as an enum
  unsigned v = 0;
  memcpy(&v, &t.date.fmt, sizeof(t.date.fmt) < sizeof v ? sizeof(t.date.fmt) : sizeof v);
  return static_cast<int>(v);
}
static std::string date_str(const cctz::PosixTransition& t) {
  char b[100];
  int f = raw_fmt(t);
  if (f == cctz::PosixTransition::J) snprintf(b, sizeof b, "J%d/%d", (int)t.date.j.day, (int)t.time.offset);
  else if (f == cctz::PosixTransition::N) snprintf(b, sizeof b, "N%d/%d", (int)t.date.n.day, (int)t.time.offset);
  else if (f == cctz::PosixTransition::M) snprintf(b, sizeof b, "M%d.%d.%d/%d", (int)t.date.m.month, (int)t.date.m.week, (int)t.date.m.weekday, (int)t.time.offset);
  else snprintf(b, sizeof b, "fmt=%d(unset)/%d", f, (int)t.time.offset);
  return b;
}
static std::string date_str(const ref::PDate& d) {
  char b[100];
  if (d.fmt == 'J') snprintf(b, sizeof b, "J%d/%d", d.day, d.time);
  else if (d.fmt == 'N') snprintf(b, sizeof b, "N%d/%d", d.day, d.time);
  else snprintf(b, sizeof b, "M%d.%d.%d/%d", d.month, d.week, d.weekday, d.time);
  return b;
}

static void c16_one(const std::string& s, hz::Result& r, const char* cls) {
  ref::Posix w;
  const bool wacc = ref::parse_posix(s, &w);
  // leading ':' is implementation-defined in POSIX; the statement's grammar has no such form => reject (both agree)
  Parsed a = parse_prefilled(s, 0x00), b = parse_prefilled(s, 0xA5);
  r.count("evaluations");
  std::vector<std::string> ra = {"--spec-hex", hz::hex(s)};
  r.cls(std::string("C16:") + cls + (wacc ? (w.has_dst ? ":accept-dst" : ":accept-std") : ":reject"));
  if (a.ok != b.ok) { r.violation("C16:nondeterministic-accept", "acceptance of " + hz::jstr(s) + " depends on the pre-fill of the result struct", ra); return; }
  if (a.ok != wacc) {
    r.violation(std::string("C16:acceptance:") + (a.ok ? "accepted-invalid" : "rejected-valid"), "ParsePosixSpec(" + hz::jstr(s) + ") = " + (a.ok ? "accept" : "reject") + "; grammar says " + (wacc ? "accept" : "reject"), ra);
    return;
  }
  if (!wacc) return;
  auto bad = [&](const std::string& what) { r.violation("C16:field:" + what, "ParsePosixSpec(" + hz::jstr(s) + "): field " + what + " wrong or not determined by the string (prefill 0x00: std=" + a.p.std_abbr + "/" + std::to_string(a.p.std_offset) + " dst=" + a.p.dst_abbr + "/" + std::to_string(a.p.dst_offset) + " " + date_str(a.p.dst_start) + " " + date_str(a.p.dst_end) + "; prefill 0xA5: dst_off=" + std::to_string(b.p.dst_offset) + " " + date_str(b.p.dst_start) + " " + date_str(b.p.dst_end) + "; reference: std=" + w.std_abbr + "/" + std::to_string(w.std_off) + " dst=" + w.dst_abbr + "/" + std::to_string(w.dst_off) + " " + date_str(w.start) + " " + date_str(w.end) + ")", ra); };
  for (const Parsed* q : {&a, &b}) {
    if (q->p.std_abbr != w.std_abbr) return bad("std_abbr");
    if (q->p.std_offset != w.std_off) return bad("std_offset");
    if (!w.has_dst) {
      if (!q->p.dst_abbr.empty()) return bad("dst_abbr(nonempty-without-dst)");
      continue;
    }
    if (w.dst_abbr.empty()) { r.count("dont_care_empty_dst_abbr"); continue; }
    if (q->p.dst_abbr != w.dst_abbr) return bad("dst_abbr");
    if (q->p.dst_offset != w.dst_off) return bad("dst_offset");
    const cctz::PosixTransition* pt[2] = {&q->p.dst_start, &q->p.dst_end};
    const ref::PDate* pd[2] = {&w.start, &w.end};
    for (int i = 0; i < 2; ++i) {
      const int f = raw_fmt(*pt[i]);
      const int wf = pd[i]->fmt == 'J' ? cctz::PosixTransition::J : pd[i]->fmt == 'N' ? cctz::PosixTransition::N : cctz::PosixTransition::M;
      if (f != wf) return bad(i ? "dst_end.date.fmt" : "dst_start.date.fmt");
      if (wf == cctz::PosixTransition::J && pt[i]->date.j.day != pd[i]->day) return bad("date.j.day");
      if (wf == cctz::PosixTransition::N && pt[i]->date.n.day != pd[i]->day) return bad("date.n.day");
      if (wf == cctz::PosixTransition::M && (pt[i]->date.m.month != pd[i]->month || pt[i]->date.m.week != pd[i]->week || pt[i]->date.m.weekday != pd[i]->weekday)) return bad("date.m");
      if (pt[i]->time.offset != pd[i]->time) return bad(i ? "dst_end.time" : "dst_start.time");
    }
  }
}

// End to end: the string as footer of a TZif file.
static long long g_e2e_n = 0;
static void c16_e2e(const std::string& s, hz::Result& r) {
  if (s.find('\n') != std::string::npos || s.find('\0') != std::string::npos) return;
  ref::Posix w;
  const bool wacc = ref::parse_posix(s, &w);
  tzgen::GenStats st;
  tzgen::GenZone gz;
  bool wellformed = false;
  std::string bytes;
  if (wacc && w.has_dst && w.dst_abbr.empty()) { r.cls("C16:e2e:empty-dst-abbr(dont-care)"); return; }
  if (wacc) {
    tzgen::Footer f{s, "e2e"};
    wellformed = tzgen::build_zone(f, tzgen::K_ONE, 3, &gz, &st);
    if (wellformed) bytes = gz.bytes;
  }
  if (!wellformed) {
    tzgen::TzSpec sp;
    sp.version = 3;
    sp.types = {{-1234, false, "LMT"}, {wacc ? w.std_off : 3600, false, wacc ? w.std_abbr : "STD"}};
    sp.times = {-2000000000LL};
    sp.idx = {1};
    sp.footer = s;
    bytes = tzgen::write_tzif(sp);
  }
  cctz::time_zone tz;
  const std::string name = "c16/" + std::to_string(g_e2e_n++);
  const bool ok = glue::load_bytes(name, bytes, &tz);
  r.count("evaluations");
  std::vector<std::string> ra = {"--spec-hex", hz::hex(s), "--e2e", "1"};
  if (!wacc) {
    r.cls("C16:e2e:reject");
    if (s.empty()) return;  // empty footer = "no footer", legitimately loads
    if (ok) r.violation("C16:e2e:loaded-invalid-footer", "TZif with invalid footer " + hz::jstr(s) + " loaded", ra);
    else if (tz != cctz::utc_time_zone()) r.violation("C16:e2e:not-utc", "failed load did not leave UTC", ra);
    return;
  }
  if (!wellformed) { r.cls("C16:e2e:accepted-but-not-wellformed(dont-care)"); return; }
  r.cls(w.has_dst ? "C16:e2e:dst" : "C16:e2e:std");
  if (!ok) { r.violation("C16:e2e:rejected-valid-footer", "well-formed TZif with footer " + hz::jstr(s) + " failed to load", ra); return; }
  // a few probes in the rule regime: around both transitions of 2030 and of 2431
  ref::RZone rz = ref::RZone::from_bytes(bytes);
  if (!rz.ok) { r.count("ref_rejected"); return; }
  std::vector<i128> pts = {0, 1893456000LL};
  if (rz.has_rule) for (i128 y : {i128(2030), i128(2431), i128(123456)}) { pts.push_back(ref::rule_start_utc(rz.px, y)); pts.push_back(ref::rule_end_utc(rz.px, y)); }
  for (i128 p : pts) for (int d = -1; d <= 0; ++d) {
    const long long t = static_cast<long long>(p + d);
    const auto al = tz.lookup(glue::tp_of(t));
    const ref::RType m = rz.at(t);
    r.count("evaluations");
    if (al.offset != m.off || al.is_dst != m.dst || m.abbr != al.abbr) {
      r.violation("C16:e2e:lookup", "footer " + hz::jstr(s) + " t=" + std::to_string(t) + ": impl off=" + std::to_string(al.offset) + " dst=" + std::to_string(al.is_dst) + " abbr=" + al.abbr + "; ref off=" + std::to_string(m.off) + " dst=" + std::to_string(m.dst) + " abbr=" + m.abbr, ra);
      return;
    }
  }
}

static void c16_run(const hz::ShardCtl& ctl, int nshards, const hz::Args& a, hz::Result& r) {
  std::vector<std::string> sent, acc;
  c16_sentences(a.thorough(), &sent, &acc);
  long long idx = 0;
  // (a) grammar sentences
  hz::begin_case(1, "C16 grammar sentences");
  for (auto& s : sent) if ((idx++ % nshards) == ctl.shard) { c16_one(s, r, "sentence"); if (idx % 3 == 0 || a.thorough()) c16_e2e(s, r); }
  // (b) every single edit of accepted sentences
  const std::string sigma = "A<>+-09:,/.MJ ";
  size_t nseed = std::min<size_t>(acc.size(), a.thorough() ? 600 : 200);
  // spread the seeds over the accepted list
  for (size_t k = 0; k < nseed; ++k) {
    if (static_cast<int>(k % nshards) != ctl.shard) continue;
    const std::string& s = acc[(k * acc.size()) / nseed];
    hz::begin_case(100 + k, "C16 edits of " + s);
    for (size_t i = 0; i <= s.size(); ++i) {
      if (i < s.size()) { std::string d = s; d.erase(i, 1); c16_one(d, r, "delete"); if ((i % 4) == 0) c16_e2e(d, r); }
      for (char c : sigma) {
        if (i < s.size() && s[i] != c) { std::string e = s; e[i] = c; c16_one(e, r, "replace"); }
        std::string f = s; f.insert(i, 1, c); c16_one(f, r, "insert");
      }
    }
    // NUL inside, high bytes
    { std::string e = s; e[s.size() / 2] = '\0'; c16_one(e, r, "nul"); std::string f = s; f[s.size() / 2] = '\xff'; c16_one(f, r, "highbyte"); }
  }
  // (c) all strings of length <= L over sigma
  const int L = a.thorough() ? 7 : 5;
  const int n = static_cast<int>(sigma.size());
  for (int len = 0; len <= L; ++len) {
    long long total = 1;
    for (int i = 0; i < len; ++i) total *= n;
    for (long long v = ctl.shard; v < total; v += nshards) {
      if ((v & 0xfffff) == static_cast<long long>(ctl.shard)) { hz::begin_case(10000 + len, "C16 all strings of length " + std::to_string(len)); if (a.time_up()) { r.exhaustive = false; r.note("deadline during all-strings enumeration, length " + std::to_string(len)); return; } }
      std::string s(len, ' ');
      long long x = v;
      for (int i = 0; i < len; ++i) { s[i] = sigma[x % n]; x /= n; }
      c16_one(s, r, "allstrings");
    }
  }
}

int main(int argc, char** argv) {
  hz::Args a = hz::parse_args(argc, argv);
  g_prop = a.prop;
  if (!ref::self_check()) return 2;
  glue::install_factory();
  hz::Result total;
  if (a.has("--offset")) { c15_offset(atoll(a.get("--offset").c_str()), true, total); return hz::finish(a, total); }
  if (a.has("--name-hex")) { c15_name(hz::unhex(a.get("--name-hex")), total, "replay"); return hz::finish(a, total); }
  if (a.has("--spec-hex")) { if (a.has("--e2e")) c16_e2e(hz::unhex(a.get("--spec-hex")), total); else c16_one(hz::unhex(a.get("--spec-hex")), total, "replay"); return hz::finish(a, total); }
  const int nshards = 64;
  hz::PoolOpts po; po.workers = a.workers;
  hz::run_shards(nshards, po, a.workdir, [&](const hz::ShardCtl& ctl, hz::Result& r) {
    if (g_prop == "C15") c15_run(ctl, nshards, a, r); else c16_run(ctl, nshards, a, r);
  }, &total);
  if (g_prop == "C15") {
    total.sample("{\"offset\":-45296,\"name\":\"Fixed/UTC-12:34:56\",\"abbr\":\"-123456\"}");
    total.sample("{\"name_edit\":\"Fixed/UTC+01:0:00 (delete at 14)\",\"expected\":\"reject\"}");
  } else {
    total.sample("{\"spec\":\"<+0330>-3:30<+0430>-4:30,J79/24,265/-1\",\"expected\":\"accept; all fields determined\"}");
    total.sample("{\"spec\":\"EST5EDT,M3.2.0\",\"expected\":\"reject (one rule missing)\"}");
  }
  return hz::finish(a, total);
}
