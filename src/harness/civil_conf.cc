// E1 harness for C04 (normalization), C05 (arithmetic/difference), C17
// (weekday/yearday/next/prev weekday): complete enumeration of the 146097-day
// Gregorian cycle (replicated at eras across the int64 year range) and of
// boundary-value products, compared with the 128-bit reference calendar.
// Built with UBSan/ASan: "no intermediate overflow" is part of the oracle.
#include <climits>

#include "../common/harness.h"
#include "../common/ref_civil.h"
#include "cctz/civil_time.h"

using ref::i128;
using ref::Civil;

static const i128 IMIN = static_cast<i128>(INT64_MIN), IMAX = static_cast<i128>(INT64_MAX);
static inline bool fits(i128 v) { return v >= IMIN && v <= IMAX; }
static std::string s128(i128 v) { return ref::to_string(v); }
static std::string g_prop;
static bool g_thorough;

template <typename T>
static Civil civil_of(const T& c) { return Civil{c.year(), c.month(), c.day(), c.hour(), c.minute(), c.second()}; }

static Civil align_ref(Civil c, int a) {  // 0 sec,1 min,2 hour,3 day,4 month,5 year
  if (a >= 1) c.ss = 0;
  if (a >= 2) c.mm = 0;
  if (a >= 3) c.hh = 0;
  if (a >= 4) c.d = 1;
  if (a >= 5) c.m = 1;
  return c;
}
static const char* kAlign[6] = {"second", "minute", "hour", "day", "month", "year"};

static std::string tuple_str(const long long* f) {
  char b[200];
  snprintf(b, sizeof b, "(%lld,%lld,%lld,%lld,%lld,%lld)", f[0], f[1], f[2], f[3], f[4], f[5]);
  return b;
}
static std::vector<std::string> ra_tuple(const long long* f) {
  std::vector<std::string> v = {"--tuple"};
  for (int i = 0; i < 6; ++i) v.push_back(std::to_string(f[i]));
  return v;
}

// ---------------------------------------------------------------------------
// C04
static bool accessor_ranges_ok(const Civil& c) {
  return c.m >= 1 && c.m <= 12 && c.d >= 1 && c.d <= ref::days_in_month(c.y, c.m) && c.hh >= 0 && c.hh <= 23 && c.mm >= 0 && c.mm <= 59 && c.ss >= 0 && c.ss <= 59;
}

// returns false if the tuple is outside the property's representability bound
static bool c04_one(const long long* f, hz::Result& r, bool all_align, const char* cls) {
  const i128 yc = ref::year_after_month_carry(f[0], f[1]);
  if (!fits(yc)) { r.count("skipped_unrepresentable"); return false; }
  const i128 secs = ref::secs_from_fields(f[0], f[1], f[2], f[3], f[4], f[5]);
  const Civil want = ref::civil_from_secs(secs);
  if (!fits(want.y)) { r.count("skipped_unrepresentable"); return false; }
  r.count("evaluations");
  hz::set_raw(f, 6);
  cctz::civil_second cs(f[0], f[1], f[2], f[3], f[4], f[5]);
  Civil got = civil_of(cs);
  if (got != want || !accessor_ranges_ok(got)) {
    r.violation(std::string("C04:normalize:") + cls, "civil_second" + tuple_str(f) + " = " + ref::civil_str(got) + " expected " + ref::civil_str(want), ra_tuple(f));
    return true;
  }
  if (all_align) {
    Civil g[6];
    g[0] = got;
    g[1] = civil_of(cctz::civil_minute(f[0], f[1], f[2], f[3], f[4], f[5]));
    g[2] = civil_of(cctz::civil_hour(f[0], f[1], f[2], f[3], f[4], f[5]));
    g[3] = civil_of(cctz::civil_day(f[0], f[1], f[2], f[3], f[4], f[5]));
    g[4] = civil_of(cctz::civil_month(f[0], f[1], f[2], f[3], f[4], f[5]));
    g[5] = civil_of(cctz::civil_year(f[0], f[1], f[2], f[3], f[4], f[5]));
    for (int a = 1; a < 6; ++a) {
      r.count("evaluations");
      if (g[a] != align_ref(want, a))
        r.violation(std::string("C04:align:") + kAlign[a], std::string("civil_") + kAlign[a] + tuple_str(f) + " = " + ref::civil_str(g[a]) + " expected " + ref::civil_str(align_ref(want, a)), ra_tuple(f));
    }
    // cross-alignment conversions: every ordered pair, from the normalized values
    cctz::civil_minute cmi(cs); cctz::civil_hour ch(cs); cctz::civil_day cd(cs); cctz::civil_month cmo(cs); cctz::civil_year cy(cs);
    Civil x[6] = {got, civil_of(cmi), civil_of(ch), civil_of(cd), civil_of(cmo), civil_of(cy)};
    for (int a = 0; a < 6; ++a) {
      r.count("evaluations");
      if (x[a] != align_ref(want, a)) r.violation(std::string("C04:convert-down:") + kAlign[a], "explicit conversion second->" + std::string(kAlign[a]) + " of " + ref::civil_str(got) + " gave " + ref::civil_str(x[a]), ra_tuple(f));
    }
    // widening conversions keep the fields
    Civil up[5] = {civil_of(cctz::civil_second(cmi)), civil_of(cctz::civil_second(ch)), civil_of(cctz::civil_second(cd)), civil_of(cctz::civil_second(cmo)), civil_of(cctz::civil_second(cy))};
    for (int a = 0; a < 5; ++a) {
      r.count("evaluations");
      if (up[a] != align_ref(want, a + 1)) r.violation("C04:convert-up", std::string(kAlign[a + 1]) + "->second changed fields: " + ref::civil_str(up[a]), ra_tuple(f));
    }
    // chained narrowing: day->month->year and hour->day etc.
    Civil chain1 = civil_of(cctz::civil_year(cctz::civil_month(cd)));
    Civil chain2 = civil_of(cctz::civil_day(cctz::civil_hour(cmi)));
    Civil chain3 = civil_of(cctz::civil_hour(cctz::civil_day(cs)));  // widening day->hour
    r.count("evaluations", 3);
    if (chain1 != align_ref(want, 5) || chain2 != align_ref(want, 3) || chain3 != align_ref(want, 3))
      r.violation("C04:convert-chain", "chained alignment conversion wrong for " + ref::civil_str(got), ra_tuple(f));
  }
  r.cls(std::string("C04:") + cls);
  return true;
}

static void c04_cycle(int shard, int nshards, const hz::Args& a, hz::Result& r) {
  // base days: all of 2000-01-01 .. 2399-12-31
  const i128 d0 = ref::days_from_civil(2000, 1, 1);
  const int tods[3][3] = {{0, 0, 0}, {23, 59, 59}, {12, 34, 56}};
  const long long A3[3] = {0, 1, -1};
  std::vector<long long> Abig = {0, 1, -1, 2, -2, 1000003, -1000003};
  if (a.thorough()) { Abig.push_back(1LL << 31); Abig.push_back(-(1LL << 31)); Abig.push_back(97); Abig.push_back(-97); }
  const int kshifts[9] = {0, 1, -1, -12, 12, 13, -14, -48, 4800};  // month shifts used to denormalize the day field
  for (int di = shard; di < 146097; di += nshards) {
    if ((di & 1023) == 0) { hz::begin_case(di, "C04 cycle day index " + std::to_string(di)); if (a.time_up()) { r.exhaustive = false; r.note("deadline in C04 cycle at day " + std::to_string(di)); return; } }
    i128 yy; int mo, dd;
    ref::civil_from_days(d0 + di, &yy, &mo, &dd);
    const long long y = static_cast<long long>(yy);
    // reduced base set for the big alphabet: days 1-3 and last 3 of each month of 2000-2003, 2096-2104, 2196-2204, 2296-2304, 2396-2399
    bool reduced = (dd <= 2 || dd >= 28) && ((y <= 2003) || (y >= 2096 && y <= 2104) || (y >= 2196 && y <= 2204) || (y >= 2296 && y <= 2304) || y >= 2396);
    for (int ti = 0; ti < 3; ++ti) {
      const int hh = tods[ti][0], mi = tods[ti][1], ss = tods[ti][2];
      // (i) small alphabet, complete product over the five carries x month-shift of the day field
      for (int cs_ = 0; cs_ < 3; ++cs_) for (int cm = 0; cm < 3; ++cm) for (int ch = 0; ch < 3; ++ch) for (int cmo = 0; cmo < 3; ++cmo) for (int ks = 0; ks < 5; ++ks) {
        long long f[6];
        long long k = kshifts[ks];
        // day field counted from the first of month (m-k)
        i128 ym = y, mm_ = mo - k;
        i128 ny = ym + ref::floordiv(mm_ - 1, 12);
        int nm = static_cast<int>(ref::floormod(mm_ - 1, 12)) + 1;
        long long dfield = dd + static_cast<long long>(ref::days_from_civil(y, mo, 1) - ref::days_from_civil(ny, nm, 1));
        f[5] = ss - 60 * A3[cs_];
        f[4] = mi + A3[cs_] - 60 * A3[cm];
        f[3] = hh + A3[cm] - 24 * A3[ch];
        f[2] = dfield + A3[ch];
        f[1] = (mo - k) - 12 * A3[cmo];
        f[0] = y + A3[cmo];
        bool ident = (cs_ | cm | ch | cmo | ks) == 0;
        c04_one(f, r, ident || (cs_ == 2 && cm == 1 && ch == 2 && cmo == 1 && ks == 1), "cycle-small");
      }
      // (ii) big alphabet on the reduced base set
      if (reduced) {
        const size_t n = Abig.size();
        for (size_t i0 = 0; i0 < n; ++i0) for (size_t i1 = 0; i1 < n; ++i1) for (size_t i2 = 0; i2 < n; ++i2) for (size_t i3 = 0; i3 < n; ++i3) for (int ks = 0; ks < 9; ++ks) {
          long long f[6];
          long long k = kshifts[ks];
          i128 mm_ = mo - k;
          i128 ny = y + ref::floordiv(mm_ - 1, 12);
          int nm = static_cast<int>(ref::floormod(mm_ - 1, 12)) + 1;
          long long dfield = dd + static_cast<long long>(ref::days_from_civil(y, mo, 1) - ref::days_from_civil(ny, nm, 1));
          f[5] = ss - 60 * Abig[i0];
          f[4] = mi + Abig[i0] - 60 * Abig[i1];
          f[3] = hh + Abig[i1] - 24 * Abig[i2];
          f[2] = dfield + Abig[i2];
          f[1] = (mo - k) - 12 * Abig[i3];
          f[0] = y + Abig[i3];
          c04_one(f, r, false, "cycle-big");
        }
      }
    }
  }
}

// (iii) dense sweeps: ONE field takes every value of a contiguous range (so every residue of every
// nested quotient/remainder pair the normaliser computes from it occurs, in particular values whose own
// carry carries again), the others stay at a base; then every PAIR of sub-day fields over a coarser set.
static void c04_dense(int shard, int nshards, const hz::Args& a, hz::Result& r) {
  const long long bases[][6] = {
      {2016, 1, 28, 17, 14, 12}, {2000, 2, 29, 23, 59, 59}, {1999, 12, 31, 0, 0, 0}, {1970, 1, 1, 0, 0, 0}, {2100, 3, 1, 0, 0, 1},
      {-1, 1, 1, 12, 30, 30},    {0, 2, 28, 23, 0, 59},     {2400, 12, 31, 23, 59, 0}, {1900, 2, 28, 1, 1, 1},  {-400, 3, 1, 0, 59, 0}};
  const int nb = static_cast<int>(sizeof(bases) / sizeof(bases[0]));
  const long long R[6] = {0, 400, 1600, a.thorough() ? 20000 : 4000, a.thorough() ? 200000 : 90000, a.thorough() ? 400000 : 180000};  // half-width per field (month..second)
  long long idx = 0;
  for (int b = 0; b < nb; ++b) for (int fld = 1; fld < 6; ++fld) {
    if (static_cast<int>((idx++) % nshards) != shard) continue;
    hz::begin_case(3000000 + b * 10 + fld, "C04 dense sweep of field " + std::to_string(fld) + " on base " + std::to_string(b));
    if (a.time_up()) { r.exhaustive = false; r.note("deadline in C04 dense sweeps"); return; }
    for (long long v = -R[fld]; v <= R[fld]; ++v) {
      long long f[6];
      for (int i = 0; i < 6; ++i) f[i] = bases[b][i];
      f[fld] = v;
      c04_one(f, r, (v % 97) == 0, "dense-one-field");
    }
  }
  // pairs: (minute, second), (hour, second), (hour, minute), (day, second), (day, hour) over multiples-of-unit +- 1
  std::vector<long long> P;
  for (long long u : {1LL, 12LL, 24LL, 28LL, 60LL, 365LL, 1440LL, 3600LL, 86400LL})
    for (long long k : {-3LL, -2LL, -1LL, 1LL, 2LL, 3LL}) for (long long e : {-1LL, 0LL, 1LL}) P.push_back(u * k + e);
  P.push_back(0);
  std::sort(P.begin(), P.end());
  P.erase(std::unique(P.begin(), P.end()), P.end());
  const int pairs[][2] = {{4, 5}, {3, 5}, {3, 4}, {2, 5}, {2, 3}, {2, 4}, {1, 2}, {1, 5}};
  for (int b = 0; b < nb; ++b) for (auto& pr : pairs) {
    if (static_cast<int>((idx++) % nshards) != shard) continue;
    hz::begin_case(3100000 + b * 10 + pr[0] * 6 + pr[1], "C04 dense pairs");
    if (a.time_up()) { r.exhaustive = false; r.note("deadline in C04 dense pairs"); return; }
    for (long long x : P) for (long long y : P) {
      long long f[6];
      for (int i = 0; i < 6; ++i) f[i] = bases[b][i];
      f[pr[0]] = x; f[pr[1]] = y;
      c04_one(f, r, false, "dense-field-pair");
    }
  }
}

static void c04_boundary(int shard, int nshards, const hz::Args& a, hz::Result& r) {
  std::vector<long long> B = {INT64_MIN, INT64_MIN + 1, -(1LL << 62), -146097, -366, -365, -1, 0, 1, 12, 13, 28, 31, 32, 59, 60, 365, 366, 146097, 1LL << 62, INT64_MAX - 1, INT64_MAX};
  if (a.thorough()) { const long long more[] = {29, 30, 61, 146096, 146098, -364, -367}; for (long long m : more) B.push_back(m); }
  const size_t n = B.size();
  // the month field additionally takes the values around multiples of 12 (n_mon's special cases)
  std::vector<long long> BM = B;
  for (long long m : {-25LL, -24LL, -23LL, -13LL, -12LL, -11LL, 11LL, 23LL, 24LL, 25LL, -2400LL, 2401LL}) BM.push_back(m);
  long long idx = 0;
  for (size_t i0 = 0; i0 < n; ++i0) for (size_t i1 = 0; i1 < BM.size(); ++i1) {
    if (static_cast<int>((idx++) % nshards) != shard) continue;
    hz::begin_case(1000000 + i0 * BM.size() + i1, "C04 boundary product y=" + std::to_string(B[i0]) + " m=" + std::to_string(BM[i1]));
    if (a.time_up()) { r.exhaustive = false; r.note("deadline in C04 boundary product"); return; }
    for (size_t i2 = 0; i2 < n; ++i2) for (size_t i3 = 0; i3 < n; ++i3) for (size_t i4 = 0; i4 < n; ++i4) for (size_t i5 = 0; i5 < n; ++i5) {
      long long f[6] = {B[i0], BM[i1], B[i2], B[i3], B[i4], B[i5]};
      c04_one(f, r, ((i2 + i3 + i4 + i5) % 17) == 0, "boundary-product");
    }
  }
}

// ---------------------------------------------------------------------------
// C05
template <typename T> struct AlignInfo;
template <> struct AlignInfo<cctz::civil_second> { static const int a = 0; };
template <> struct AlignInfo<cctz::civil_minute> { static const int a = 1; };
template <> struct AlignInfo<cctz::civil_hour> { static const int a = 2; };
template <> struct AlignInfo<cctz::civil_day> { static const int a = 3; };
template <> struct AlignInfo<cctz::civil_month> { static const int a = 4; };
template <> struct AlignInfo<cctz::civil_year> { static const int a = 5; };

static i128 index_of(const Civil& c, int a) {
  switch (a) {
    case 0: return ref::secs_from_civil(c);
    case 1: return ref::floordiv(ref::secs_from_civil(c), 60);
    case 2: return ref::floordiv(ref::secs_from_civil(c), 3600);
    case 3: return ref::days_from_civil(c.y, c.m, c.d);
    case 4: return c.y * 12 + (c.m - 1);
    default: return c.y;
  }
}
static Civil civil_of_index(i128 i, int a) {
  switch (a) {
    case 0: return ref::civil_from_secs(i);
    case 1: return ref::civil_from_secs(i * 60);
    case 2: return ref::civil_from_secs(i * 3600);
    case 3: return ref::civil_from_secs(i * 86400);
    case 4: return Civil{ref::floordiv(i, 12), static_cast<int>(ref::floormod(i, 12)) + 1, 1, 0, 0, 0};
    default: return Civil{i, 1, 1, 0, 0, 0};
  }
}

static const std::vector<long long>& steps() {
  static std::vector<long long> N;
  if (N.empty()) {
    const long long pos[] = {1, 2, 23, 24, 25, 27, 28, 29, 30, 31, 32, 59, 60, 61, 365, 366, 1460, 1461, 36524, 36525, 146096, 146097, 146098, 2 * 146097, 1LL << 31, 1LL << 62};
    N.push_back(0);
    for (long long p : pos) { N.push_back(p); N.push_back(-p); }
    N.push_back(INT64_MIN); N.push_back(INT64_MIN + 1); N.push_back(INT64_MAX);
  }
  return N;
}

// For the sub-day alignments: whole numbers of days around one year (the day carry then lands on the
// -365 / +365 thresholds of the day normaliser), in the alignment's own unit.  Era 0 only.
static const std::vector<long long>& year_steps(int a) {
  static std::vector<long long> S[3];
  if (S[0].empty()) {
    const long long unit[3] = {86400, 1440, 24};
    for (int k = 0; k < 3; ++k) for (long long d = 364; d <= 397; ++d) { S[k].push_back(d * unit[k]); S[k].push_back(-d * unit[k]); }
  }
  return S[a];
}

template <typename T>
static void c05_at(const Civil& base, hz::Result& r, const char* era_cls) {
  const int a = AlignInfo<T>::a;
  const Civil ab = align_ref(base, a);
  const T x(static_cast<long long>(ab.y), ab.m, ab.d, ab.hh, ab.mm, ab.ss);
  const i128 ix = index_of(ab, a);
  std::vector<long long> all = steps();
  if (a <= 2 && strcmp(era_cls, "era0") == 0) { const std::vector<long long>& ys = year_steps(a); all.insert(all.end(), ys.begin(), ys.end()); }
  for (long long n : all) {
    // a + n
    const i128 iy = ix + n;
    const Civil want = civil_of_index(iy, a);
    char nb[40]; snprintf(nb, sizeof nb, "%lld", n);
    std::vector<std::string> ra = {"--align", kAlign[a], "--civil", s128(ab.y), std::to_string(ab.m), std::to_string(ab.d), std::to_string(ab.hh), std::to_string(ab.mm), std::to_string(ab.ss), "--n", nb};
    if (fits(want.y)) {
      r.count("evaluations");
      const T y = x + n;
      if (civil_of(y) != want) {
        r.violation(std::string("C05:add:") + kAlign[a], std::string(kAlign[a]) + " " + ref::civil_str(ab) + " + " + nb + " = " + ref::civil_str(civil_of(y)) + " expected " + ref::civil_str(want), ra);
        continue;
      }
      r.cls(std::string("C05:add:") + kAlign[a] + ":" + era_cls);
      // the other spellings of the same step: a += n, n + a
      {
        T y2 = x; y2 += n;
        const T y3 = n + x;
        r.count("evaluations", 2);
        if (civil_of(y2) != want || civil_of(y3) != want)
          r.violation(std::string("C05:add-spelling:") + kAlign[a], std::string(kAlign[a]) + " " + ref::civil_str(ab) + ": a += n gives " + ref::civil_str(civil_of(y2)) + ", n + a gives " + ref::civil_str(civil_of(y3)) + ", expected " + ref::civil_str(want) + " for n=" + nb, ra);
      }
      // (a + n) - a == n ; a < b iff a - b < 0
      const long long d = y - x;
      r.count("evaluations");
      if (d != n) r.violation(std::string("C05:diff:") + kAlign[a], "(" + ref::civil_str(ab) + " + " + nb + ") - a = " + std::to_string(d), ra);
      // reverse difference when representable
      if (n != INT64_MIN) {
        const long long d2 = x - y;
        r.count("evaluations");
        if (d2 != -n) r.violation(std::string("C05:diff-rev:") + kAlign[a], "a - (a + " + std::string(nb) + ") = " + std::to_string(d2) + " for a=" + ref::civil_str(ab), ra);
        // b + (a - b) == a
        const T back = y + d2;
        r.count("evaluations");
        if (civil_of(back) != ab) r.violation(std::string("C05:inverse:") + kAlign[a], "b + (a - b) != a for a=" + ref::civil_str(ab) + " n=" + nb, ra);
      }
      r.count("evaluations");
      const bool lt = x < y, gt = x > y, eq = x == y, le = x <= y, ge = x >= y, ne = x != y;
      if (lt != (n > 0) || gt != (n < 0) || eq != (n == 0) || le != (n >= 0) || ge != (n <= 0) || ne != (n != 0))
        r.violation(std::string("C05:order:") + kAlign[a], "relational operators disagree with difference for a=" + ref::civil_str(ab) + " n=" + nb, ra);
    } else {
      r.count("skipped_unrepresentable");
    }
    // a - n  (covers the n == min special case)
    const i128 iz = ix - static_cast<i128>(n);
    const Civil wantm = civil_of_index(iz, a);
    // operator-(n) computes step(-n), or for n == min two steps via -(n+1) and +1: both intermediate results must be representable too
    bool rep = fits(wantm.y);
    if (n == INT64_MIN) rep = rep && fits(civil_of_index(ix - static_cast<i128>(n + 1), a).y);
    if (rep) {
      r.count("evaluations");
      const T z = x - n;
      if (civil_of(z) != wantm)
        r.violation(std::string("C05:sub:") + kAlign[a], std::string(kAlign[a]) + " " + ref::civil_str(ab) + " - " + nb + " = " + ref::civil_str(civil_of(z)) + " expected " + ref::civil_str(wantm), ra);
      else r.cls(std::string("C05:sub:") + kAlign[a] + ":" + era_cls);
      T z2 = x; z2 -= n;
      r.count("evaluations");
      if (civil_of(z2) != wantm)
        r.violation(std::string("C05:sub-spelling:") + kAlign[a], std::string(kAlign[a]) + " " + ref::civil_str(ab) + ": a -= " + nb + " gives " + ref::civil_str(civil_of(z2)) + " expected " + ref::civil_str(wantm), ra);
    }
  }
  // ++ / -- / += / -=
  {
    T p = x, q = x;
    const Civil nx = civil_of_index(ix + 1, a), pv = civil_of_index(ix - 1, a);
    if (fits(nx.y) && fits(pv.y)) {
      ++p; --q;
      T p2 = x; p2 += 1; T q2 = x; q2 -= 1;
      T p3 = x; T old = p3++; T q3 = x; T old2 = q3--;
      r.count("evaluations", 6);
      if (civil_of(p) != nx || civil_of(q) != pv || civil_of(p2) != nx || civil_of(q2) != pv || civil_of(p3) != nx || civil_of(q3) != pv || civil_of(old) != ab || civil_of(old2) != ab)
        r.violation(std::string("C05:incdec:") + kAlign[a], "++/--/+=/-= wrong at " + ref::civil_str(ab), {"--align", kAlign[a], "--civil", s128(ab.y), std::to_string(ab.m), std::to_string(ab.d), std::to_string(ab.hh), std::to_string(ab.mm), std::to_string(ab.ss), "--n", "1"});
    }
  }
}

// cross-alignment comparison = comparison of the six fields
static void c05_cross(const Civil& p, const Civil& q, hz::Result& r) {
  cctz::civil_second sp((long long)p.y, p.m, p.d, p.hh, p.mm, p.ss);
  cctz::civil_day dq((long long)q.y, q.m, q.d);
  cctz::civil_month mq((long long)q.y, q.m);
  cctz::civil_hour hq((long long)q.y, q.m, q.d, q.hh);
  const Civil qd = align_ref(q, 3), qm = align_ref(q, 4), qh = align_ref(q, 2);
  r.count("evaluations", 3);
  if ((sp < dq) != (p < qd) || (sp == dq) != (p == qd) || (sp < mq) != (p < qm) || (mq < sp) != (qm < p) || (sp <= hq) != !(qh < p) || (dq > mq) != (qm < qd))
    r.violation("C05:cross-compare", "cross-alignment comparison wrong for " + ref::civil_str(p) + " vs " + ref::civil_str(q), {});
  r.cls("C05:cross-compare");
}

static void c05_run(int shard, int nshards, const hz::Args& a, hz::Result& r) {
  const i128 d0 = ref::days_from_civil(2000, 1, 1);
  struct Era { i128 shift; const char* cls; };
  std::vector<Era> eras = {{0, "era0"}};
  const i128 emax = (IMAX - 2400) / 400, emin = -((IMAX - 2000) / 400) - 0;
  eras.push_back({emax * 400, "era-max"});
  eras.push_back({emin * 400, "era-min"});
  if (a.thorough()) { eras.push_back({400, "era+1"}); eras.push_back({-400, "era-1"}); eras.push_back({-2400, "era-6"}); eras.push_back({400000, "era+1e3"}); eras.push_back({-400000, "era-1e3"}); }
  const int tods[3][3] = {{0, 0, 0}, {23, 59, 59}, {12, 34, 56}};
  for (int di = shard; di < 146097; di += nshards) {
    if ((di & 255) == 0) { hz::begin_case(di, "C05 cycle day index " + std::to_string(di)); if (a.time_up()) { r.exhaustive = false; r.note("deadline in C05 at day " + std::to_string(di)); return; } }
    i128 yy; int mo, dd;
    ref::civil_from_days(d0 + di, &yy, &mo, &dd);
    for (const Era& e : eras) {
      Civil c{yy + e.shift, mo, dd, 0, 0, 0};
      c05_at<cctz::civil_day>(c, r, e.cls);
      if (dd == 1) c05_at<cctz::civil_month>(c, r, e.cls);
      if (dd == 1 && mo == 1) c05_at<cctz::civil_year>(c, r, e.cls);
      const int nt = a.thorough() ? 3 : 1;
      for (int k = 0; k < nt; ++k) {
        const int ti = a.thorough() ? k : (di % 3);
        Civil t{yy + e.shift, mo, dd, tods[ti][0], tods[ti][1], tods[ti][2]};
        c05_at<cctz::civil_second>(t, r, e.cls);
        c05_at<cctz::civil_minute>(t, r, e.cls);
        c05_at<cctz::civil_hour>(t, r, e.cls);
      }
    }
    // cross-alignment comparisons against neighbours
    Civil p{yy, mo, dd, 12, 34, 56};
    i128 y2; int m2, d2;
    ref::civil_from_days(d0 + ((di * 7919) % 146097), &y2, &m2, &d2);
    Civil q{y2, m2, d2, 12, 0, 0};
    c05_cross(p, q, r);
    c05_cross(p, Civil{yy, mo, dd, 12, 34, 56}, r);
    c05_cross(p, Civil{yy, mo, 1, 0, 0, 0}, r);
  }
  // extreme years: every day of the first/last three representable years
  if (shard == 0) {
    const i128 ys[] = {IMIN, IMIN + 1, IMIN + 2, IMAX - 2, IMAX - 1, IMAX};
    for (i128 y : ys) {
      hz::begin_case(900000, "C05 extreme year " + s128(y));
      for (int m = 1; m <= 12; ++m) for (int d = 1; d <= ref::days_in_month(y, m); ++d) {
        Civil c{y, m, d, 0, 0, 0};
        c05_at<cctz::civil_day>(c, r, "extreme-year");
        if (d == 1) c05_at<cctz::civil_month>(c, r, "extreme-year");
        if (d == 1 && m == 1) c05_at<cctz::civil_year>(c, r, "extreme-year");
        Civil t{y, m, d, 23, 59, 59};
        c05_at<cctz::civil_second>(t, r, "extreme-year");
        c05_at<cctz::civil_minute>(t, r, "extreme-year");
        c05_at<cctz::civil_hour>(t, r, "extreme-year");
      }
    }
    // differences near the int64 limits: pairs of boundary years x boundary month/day
    const long long by[] = {INT64_MIN, INT64_MIN + 1, -1, 0, 1, INT64_MAX - 1, INT64_MAX};
    const int bm[] = {1, 2, 3, 12};
    for (long long y1 : by) for (long long y2 : by) for (int m1 : bm) for (int m2 : bm) for (int dd1 = 1; dd1 <= 28; dd1 += 27) for (int dd2 = 1; dd2 <= 28; dd2 += 27) {
      const Civil c1{y1, m1, dd1, 0, 0, 0}, c2{y2, m2, dd2, 0, 0, 0};
      const i128 dy = static_cast<i128>(y1) - y2;
      const i128 dm = index_of(c1, 4) - index_of(c2, 4);
      const i128 ddays = index_of(c1, 3) - index_of(c2, 3);
      if (fits(dy)) { r.count("evaluations"); long long g = cctz::civil_year(y1) - cctz::civil_year(y2); if (g != dy) r.violation("C05:diff-limit:year", "year difference wrong", {}); r.cls("C05:diff-limit"); }
      if (fits(dm)) { r.count("evaluations"); long long g = cctz::civil_month(y1, m1) - cctz::civil_month(y2, m2); if (g != dm) r.violation("C05:diff-limit:month", "month difference " + std::to_string(y1) + "-" + std::to_string(m1) + " minus " + std::to_string(y2) + "-" + std::to_string(m2) + " = " + std::to_string(g) + " expected " + s128(dm), {}); }
      if (fits(ddays)) { r.count("evaluations"); long long g = cctz::civil_day(y1, m1, dd1) - cctz::civil_day(y2, m2, dd2); if (g != ddays) r.violation("C05:diff-limit:day", "day difference wrong: expected " + s128(ddays) + " got " + std::to_string(g), {}); }
      const i128 dh = ddays * 24, dmin = ddays * 1440, dsec = ddays * 86400;
      if (fits(dh)) { r.count("evaluations"); long long g = cctz::civil_hour(y1, m1, dd1) - cctz::civil_hour(y2, m2, dd2); if (g != dh) r.violation("C05:diff-limit:hour", "hour difference wrong", {}); }
      if (fits(dmin)) { r.count("evaluations"); long long g = cctz::civil_minute(y1, m1, dd1) - cctz::civil_minute(y2, m2, dd2); if (g != dmin) r.violation("C05:diff-limit:minute", "minute difference wrong", {}); }
      if (fits(dsec)) { r.count("evaluations"); long long g = cctz::civil_second(y1, m1, dd1) - cctz::civil_second(y2, m2, dd2); if (g != dsec) r.violation("C05:diff-limit:second", "second difference wrong", {}); }
    }
  }
}

// ---------------------------------------------------------------------------
// C17
static cctz::weekday wd_of(int mon0) {
  static const cctz::weekday k[7] = {cctz::weekday::monday, cctz::weekday::tuesday, cctz::weekday::wednesday, cctz::weekday::thursday, cctz::weekday::friday, cctz::weekday::saturday, cctz::weekday::sunday};
  return k[mon0];
}
static int mon0_of(cctz::weekday w) {
  switch (w) {
    case cctz::weekday::monday: return 0; case cctz::weekday::tuesday: return 1; case cctz::weekday::wednesday: return 2;
    case cctz::weekday::thursday: return 3; case cctz::weekday::friday: return 4; case cctz::weekday::saturday: return 5; default: return 6;
  }
}

static void c17_day(i128 y, int m, int d, const char* era, hz::Result& r, int* prev_wd) {
  const i128 dn = ref::days_from_civil(y, m, d);
  const int want_wd = ref::weekday_mon0(dn);
  const cctz::civil_day cd(static_cast<long long>(y), m, d);
  std::vector<std::string> ra = {"--day", s128(y), std::to_string(m), std::to_string(d)};
  r.count("evaluations", 2);
  const int got_wd = mon0_of(cctz::get_weekday(cd));
  if (got_wd != want_wd) r.violation("C17:weekday", "get_weekday(" + s128(y) + "-" + std::to_string(m) + "-" + std::to_string(d) + ") = " + std::to_string(got_wd) + " expected " + std::to_string(want_wd) + " (0=Mon)", ra);
  if (*prev_wd >= 0 && want_wd != (*prev_wd + 1) % 7) r.count("oracle_inconsistent");  // successor law on the reference itself
  *prev_wd = want_wd;
  const int want_yd = static_cast<int>(dn - ref::days_from_civil(y, 1, 1)) + 1;
  const int got_yd = cctz::get_yearday(cd);
  if (got_yd != want_yd || got_yd < 1 || got_yd > ref::days_in_year(y)) r.violation("C17:yearday", "get_yearday(" + s128(y) + "-" + std::to_string(m) + "-" + std::to_string(d) + ") = " + std::to_string(got_yd) + " expected " + std::to_string(want_yd), ra);
  r.cls(std::string("C17:") + era + (ref::is_leap(y) ? ":leap" : ":common"));
  for (int w = 0; w < 7; ++w) {
    // next: unique day in (d, d+7] with weekday w
    int fwd = (w - want_wd + 7) % 7; if (fwd == 0) fwd = 7;
    int back = (want_wd - w + 7) % 7; if (back == 0) back = 7;
    i128 ny; int nm, nd;
    ref::civil_from_days(dn + fwd, &ny, &nm, &nd);
    if (fits(ny)) {
      r.count("evaluations");
      const cctz::civil_day g = cctz::next_weekday(cd, wd_of(w));
      if (civil_of(g) != Civil{ny, nm, nd, 0, 0, 0}) r.violation("C17:next_weekday", "next_weekday wrong at " + s128(y) + "-" + std::to_string(m) + "-" + std::to_string(d) + " w=" + std::to_string(w) + ": got " + ref::civil_str(civil_of(g)), ra);
    }
    ref::civil_from_days(dn - back, &ny, &nm, &nd);
    if (fits(ny)) {
      r.count("evaluations");
      const cctz::civil_day g = cctz::prev_weekday(cd, wd_of(w));
      if (civil_of(g) != Civil{ny, nm, nd, 0, 0, 0}) r.violation("C17:prev_weekday", "prev_weekday wrong at " + s128(y) + "-" + std::to_string(m) + "-" + std::to_string(d) + " w=" + std::to_string(w) + ": got " + ref::civil_str(civil_of(g)), ra);
    }
  }
}

static void c17_run(int shard, int nshards, const hz::Args& a, hz::Result& r) {
  struct Era { i128 shift; const char* cls; };
  std::vector<Era> eras = {{0, "era0"}, {-2400, "era-6(negative years)"}, {((IMAX - 2400) / 400) * 400, "era-max"}, {-((IMAX - 2000) / 400) * 400, "era-min"}};
  if (a.thorough()) { eras.push_back({-2000, "era-5(around year 0)"}); eras.push_back({400, "era+1"}); eras.push_back({400000, "era+1e3"}); eras.push_back({-400000, "era-1e3"}); eras.push_back({400000000000LL, "era+1e9"}); eras.push_back({-400000000000LL, "era-1e9"}); }
  // contiguous chunks so that the successor law can be checked along the way
  const int chunk = (146097 + nshards - 1) / nshards;
  const int lo = shard * chunk, hi = std::min(146097, lo + chunk);
  const i128 d0 = ref::days_from_civil(2000, 1, 1);
  for (const Era& e : eras) {
    hz::begin_case(shard * 100 + (&e - &eras[0]), std::string("C17 ") + e.cls);
    int prev = -1;
    for (int di = lo; di < hi; ++di) {
      i128 yy; int mo, dd;
      ref::civil_from_days(d0 + di, &yy, &mo, &dd);
      c17_day(yy + e.shift, mo, dd, e.cls, r, &prev);
    }
  }
  if (shard == 0) {
    const i128 ys[] = {IMIN, IMIN + 1, IMAX - 1, IMAX, -1, 0, 1, 4, 100, 400, -400, -100, -4};
    for (i128 y : ys) { int prev = -1; for (int m = 1; m <= 12; ++m) for (int d = 1; d <= ref::days_in_month(y, m); ++d) c17_day(y, m, d, "special-years", r, &prev); }
  }
}

// ---------------------------------------------------------------------------
int main(int argc, char** argv) {
  hz::Args a = hz::parse_args(argc, argv);
  g_prop = a.prop;
  g_thorough = a.thorough();
  if (!ref::self_check()) { fprintf(stderr, "reference calendar self-check failed\n"); return 2; }
  hz::Result total;
  if (a.has("--tuple")) {
    long long f[6];
    size_t p = 0; while (a.extra[p] != "--tuple") ++p;
    for (int i = 0; i < 6; ++i) f[i] = atoll(a.extra[p + 1 + i].c_str());
    c04_one(f, total, true, "replay");
    return hz::finish(a, total);
  }
  if (a.has("--day")) {
    size_t p = 0; while (a.extra[p] != "--day") ++p;
    int prev = -1;
    c17_day(atoll(a.extra[p + 1].c_str()), atoi(a.extra[p + 2].c_str()), atoi(a.extra[p + 3].c_str()), "replay", total, &prev);
    return hz::finish(a, total);
  }
  if (a.has("--civil")) {
    size_t p = 0; while (a.extra[p] != "--civil") ++p;
    Civil c{atoll(a.extra[p + 1].c_str()), atoi(a.extra[p + 2].c_str()), atoi(a.extra[p + 3].c_str()), atoi(a.extra[p + 4].c_str()), atoi(a.extra[p + 5].c_str()), atoi(a.extra[p + 6].c_str())};
    std::string al = a.get("--align");
    if (al == "second") c05_at<cctz::civil_second>(c, total, "replay");
    if (al == "minute") c05_at<cctz::civil_minute>(c, total, "replay");
    if (al == "hour") c05_at<cctz::civil_hour>(c, total, "replay");
    if (al == "day") c05_at<cctz::civil_day>(c, total, "replay");
    if (al == "month") c05_at<cctz::civil_month>(c, total, "replay");
    if (al == "year") c05_at<cctz::civil_year>(c, total, "replay");
    return hz::finish(a, total);
  }
  const int nshards = 128;
  hz::PoolOpts po; po.workers = a.workers;
  hz::run_shards(nshards, po, a.workdir, [&](const hz::ShardCtl& ctl, hz::Result& r) {
    if (g_prop == "C04") { c04_dense(ctl.shard, nshards, a, r); c04_cycle(ctl.shard, nshards, a, r); c04_boundary(ctl.shard, nshards, a, r); }
    else if (g_prop == "C05") c05_run(ctl.shard, nshards, a, r);
    else if (g_prop == "C17") c17_run(ctl.shard, nshards, a, r);
  }, &total, [&](long long, const std::string& what) -> std::vector<std::string> {
    size_t p = what.find("| raw:");
    if (p == std::string::npos || g_prop != "C04") return {};
    std::vector<std::string> v = {"--tuple"};
    std::istringstream is(what.substr(p + 6));
    std::string tok;
    for (int i = 0; i < 6 && (is >> tok); ++i) v.push_back(tok);
    return v;
  });
  if (g_prop == "C04") {
    total.sample("{\"call\":\"civil_second(2000,1-12*1,31+31,0-24*(-1),-1+60,59-60*1)\",\"note\":\"denormalized image of a cycle day: every field carries\"}");
    total.sample("{\"call\":\"civil_second(INT64_MAX,12,31,23,59,59)\",\"from\":\"boundary product\"}");
  } else if (g_prop == "C05") {
    total.sample("{\"call\":\"civil_day(2000,2,29) + 146097 == civil_day(2400,2,29); (a+n)-a == n; b+(a-b) == a\"}");
    total.sample("{\"call\":\"civil_second(INT64_MAX-1,12,31,23,59,59) - INT64_MIN  (n == min special case)\"}");
  } else {
    total.sample("{\"call\":\"get_weekday/get_yearday/next_weekday/prev_weekday on every day 2000-01-01..2399-12-31, replicated at eras\"}");
  }
  return hz::finish(a, total);
}
