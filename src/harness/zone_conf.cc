// E1 harness for C01, C02, C03, C06, C10, C11: bounded-exhaustive conformance
// of cctz's zone conversions to the reference timeline (ref_zone.h) over
// (shipped zones + synthetic family) x (breakpoint-derived probe domains).
#include <climits>
#include <cinttypes>

#include "../common/harness.h"
#include "../common/impl_glue.h"
#include "../common/ref_fixed.h"
#include "../common/ref_zone.h"
#include "../common/tzgen.h"

using ref::i128;
using ref::Civil;
typedef cctz::time_zone::civil_lookup CL;

static const i128 IMIN = static_cast<i128>(INT64_MIN), IMAX = static_cast<i128>(INT64_MAX);
static inline long long clampll(i128 v) { return v < IMIN ? INT64_MIN : v > IMAX ? INT64_MAX : static_cast<long long>(v); }
static inline bool fits(i128 v) { return v >= IMIN && v <= IMAX; }

static inline Civil civil_of(const cctz::civil_second& c) {
  return Civil{c.year(), c.month(), c.day(), c.hour(), c.minute(), c.second()};
}
static inline bool to_cctz(const Civil& c, cctz::civil_second* out) {
  if (!fits(c.y)) return false;
  *out = cctz::civil_second(static_cast<long long>(c.y), c.m, c.d, c.hh, c.mm, c.ss);
  return true;
}
static std::string s128(i128 v) { return ref::to_string(v); }

struct Zone {
  std::string id, tags, bytes;
  bool shipped = false;
  int fixed_off = INT_MIN;  // != INT_MIN: built-in fixed-offset zone
};

struct BP { i128 t; int ob, oa; };

struct Ctx {
  const Zone* z;
  ref::RZone rz;
  cctz::time_zone tz;
  std::set<int> offs;
  bool dc_default = false, dc_none_rule = false;
  i128 last_file = 0;   // last file transition (or IMIN-ish if none)
  i128 ylast = 1970;
  std::vector<BP> bps;
};

static std::string g_prop;
static bool g_thorough = false;
static int g_k = 2;

static std::vector<std::string> replay_args(const Ctx& c, const std::string& what, i128 v) {
  return {"--zone", c.z->id, "--what", what, "--arg", s128(v)};
}

// --------------------------------------------------------------------------
static void add_bp(Ctx& c, i128 t) {
  if (t < IMIN - 200000 || t > IMAX + 200000) return;
  int ob = c.rz.at(t - 1).off, oa = c.rz.at(t).off;
  c.bps.push_back({t, ob, oa});
}

static void build_breakpoints(Ctx& c) {
  const ref::RZone& z = c.rz;
  for (size_t i = 0; i < z.times.size(); ++i) add_bp(c, z.times[i]);
  const i128 gen[] = {0, -(static_cast<i128>(1) << 31), (static_cast<i128>(1) << 31) - 1, static_cast<i128>(1) << 31,
                      -(static_cast<i128>(1) << 59), static_cast<i128>(1) << 59, IMIN, IMAX,
                      IMIN + 86400, IMAX - 86400, IMIN + 2 * 86400, IMAX - 2 * 86400};
  for (i128 g : gen) add_bp(c, g);
  c.last_file = z.times.empty() ? -(static_cast<i128>(1) << 59) : z.times.back();
  c.ylast = ref::civil_from_secs(c.last_file + (z.times.empty() ? 0 : z.types[z.idx.back()].off)).y;
  if (!z.has_rule) {
    // still probe far-future years: nothing may change there
    const i128 ys[] = {c.ylast + 1, c.ylast + 400, c.ylast + 401, 100000, 292277026000LL};
    for (i128 y : ys) add_bp(c, ref::days_from_civil(y, 1, 1) * 86400);
    return;
  }
  std::vector<i128> years;
  for (i128 y = c.ylast - 1; y <= c.ylast + 402; ++y) years.push_back(y);
  const i128 ymax = ref::civil_from_secs(IMAX).y;
  const i128 nmax = (ymax - c.ylast) / 400;
  std::vector<i128> ns = {1, 2, 3, 23, 1000, 1000000, nmax - 1, nmax};
  if (g_thorough) { ns.push_back(4); ns.push_back(5); ns.push_back(7); ns.push_back(99); ns.push_back(12345678); ns.push_back(nmax / 2); ns.push_back(nmax - 2); }
  for (i128 n : ns) {
    if (n < 1) continue;
    for (i128 d = -1; d <= 2; ++d) years.push_back(c.ylast + 400 * n + d);
    if (g_thorough) for (i128 d = 100; d <= 399; d += 97) years.push_back(c.ylast + 400 * n + d);
  }
  for (i128 y = ymax - 2; y <= ymax; ++y) years.push_back(y);
  std::sort(years.begin(), years.end());
  years.erase(std::unique(years.begin(), years.end()), years.end());
  for (i128 y : years) {
    add_bp(c, ref::rule_start_utc(z.px, y));
    add_bp(c, ref::rule_end_utc(z.px, y));
    add_bp(c, ref::days_from_civil(y, 1, 1) * 86400 - z.px.std_off);
  }
}

static void instants_of(const Ctx& c, std::vector<long long>* out) {
  std::vector<i128> v;
  for (const BP& b : c.bps) {
    for (int d = -g_k; d <= g_k; ++d) v.push_back(b.t + d);
    int dd = std::abs(b.oa - b.ob);
    if (dd) for (int s = -1; s <= 1; s += 2) for (int e = -1; e <= 1; ++e) v.push_back(b.t + s * dd + e);
  }
  std::sort(v.begin(), v.end());
  v.erase(std::unique(v.begin(), v.end()), v.end());
  for (i128 t : v) if (fits(t)) out->push_back(static_cast<long long>(t));
}

// civil probes as local seconds (i128)
static void civils_of(const Ctx& c, std::vector<i128>* out) {
  std::vector<i128>& v = *out;
  for (const BP& b : c.bps) {
    int dd = std::abs(b.oa - b.ob);
    std::vector<int> ds;
    for (int d = -g_k; d <= g_k; ++d) ds.push_back(d);
    if (dd) for (int s = -1; s <= 1; s += 2) for (int e = -1; e <= 1; ++e) ds.push_back(s * dd + e);
    for (int d : ds) { v.push_back(b.t + d + b.ob); v.push_back(b.t + d + b.oa); }
  }
  const i128 cmax = ref::secs_from_civil(Civil{IMAX, 12, 31, 23, 59, 59});
  const i128 cmin = ref::secs_from_civil(Civil{IMIN, 1, 1, 0, 0, 0});
  for (int d = 0; d <= 2; ++d) { v.push_back(cmax - d); v.push_back(cmin + d); }
  for (int o : c.offs) for (int d = -2; d <= 2; ++d) { v.push_back(IMAX + o + d); v.push_back(IMIN + o + d); }
  std::sort(v.begin(), v.end());
  v.erase(std::unique(v.begin(), v.end()), v.end());
  // keep only representable civil seconds
  std::vector<i128> w;
  for (i128 s : v) if (s >= cmin && s <= cmax) w.push_back(s);
  v.swap(w);
}

static const char* region_of(const Ctx& c, i128 t) {
  const ref::RZone& z = c.rz;
  if (!z.times.empty() && t < z.times.front()) return "before-first";
  if (!z.times.empty() && t < z.times.back()) return "file";
  if (!z.has_rule) return "after-last-norule";
  i128 y = ref::civil_from_secs(t + z.px.std_off).y;
  if (y <= c.ylast) return "seam-year";
  if (y <= c.ylast + 400) return "rule-window";
  if (y <= c.ylast + 800) return "rule-shift1";
  return "rule-shiftN";
}

static bool dont_care_instant(const Ctx& c, i128 t) {
  if (c.dc_default && !c.rz.times.empty() && t < c.rz.times.front()) return true;
  if (c.dc_none_rule && t < -(static_cast<i128>(1) << 59)) return true;
  return false;
}

// --------------------------------------------------------------------------
// C01
static void check_c01_at(Ctx& c, long long t, hz::Result& r) {
  if (dont_care_instant(c, t)) { r.count("dont_care"); return; }
  cctz::time_zone::absolute_lookup al = c.tz.lookup(glue::tp_of(t));
  ref::RType m = c.rz.at(t);
  Civil want = ref::civil_from_secs(static_cast<i128>(t) + m.off);
  Civil got = civil_of(al.cs);
  r.count("evaluations");
  {
    const std::string k = std::string("C01:") + region_of(c, t) + (m.dst ? ":dst" : ":std");
    if (r.classes.find(k) == r.classes.end() && r.samples.size() < 4) {
      char sb[400];
      snprintf(sb, sizeof sb, "{\"zone\":\"%s\",\"call\":\"lookup(time_point %lld)\",\"reference\":\"off=%d dst=%d abbr=%s cs=%s\",\"class\":\"%s\"}", c.z->id.c_str(), t, m.off, m.dst, m.abbr.c_str(), ref::civil_str(want).c_str(), k.c_str());
      r.sample(sb);
    }
    r.cls(k);
  }
  bool ok = al.offset == m.off && al.is_dst == m.dst && m.abbr == al.abbr && got == want;
  if (!ok) {
    char b[400];
    snprintf(b, sizeof b, "zone %s t=%lld: impl (off=%d dst=%d abbr=%s cs=%s) ref (off=%d dst=%d abbr=%s cs=%s) region=%s footer='%s'",
             c.z->id.c_str(), t, al.offset, al.is_dst, al.abbr, ref::civil_str(got).c_str(), m.off, m.dst, m.abbr.c_str(), ref::civil_str(want).c_str(), region_of(c, t), c.rz.raw.footer.c_str());
    r.violation(std::string("C01:mismatch:") + region_of(c, t), b, replay_args(c, "tp", t));
  }
}

// --------------------------------------------------------------------------
// C02 (+C06 value check): compare lookup(cs) with the reference
struct CivRes { bool evaluated = false; bool dc = false; long long conv = 0; int kind = 0; };

static CivRes check_c02_at(Ctx& c, i128 cs, hz::Result& r, bool report, const char* prop) {
  CivRes out;
  Civil cv = ref::civil_from_secs(cs);
  cctz::civil_second ccs;
  if (!to_cctz(cv, &ccs)) return out;
  // don't-care neighbourhoods
  const i128 tlo = cs - *c.offs.rbegin() - 2, thi = cs - *c.offs.begin() + 2;
  if (dont_care_instant(c, tlo)) { r.count("dont_care"); out.dc = true; return out; }
  CL cl = c.tz.lookup(ccs);
  out.evaluated = true;
  out.kind = cl.kind;
  out.conv = glue::unix_of(cl.kind == CL::SKIPPED ? cl.trans : cl.pre);
  ref::RZone::Of m = c.rz.of(cs, c.offs);
  (void)thi;
  if (m.n > 2 || !m.found_trans) { r.count("dont_care_illformed_here"); out.dc = true; return out; }
  int want_kind = m.n == 1 ? CL::UNIQUE : m.n == 0 ? CL::SKIPPED : CL::REPEATED;
  bool sat = !fits(m.pre) || !fits(m.trans) || !fits(m.post);
  r.count("evaluations");
  {
    const std::string k = std::string(prop) + ":" + (m.n == 1 ? "unique" : m.n == 0 ? "skipped" : "repeated") + ":" + region_of(c, clampll(m.trans)) + (sat ? ":saturated" : "");
    if (m.n != 1 && r.classes.find(k) == r.classes.end() && r.samples.size() < 4) {
      std::string sb = "{\"zone\":" + hz::jstr(c.z->id) + ",\"call\":\"lookup(civil " + ref::civil_str(cv) + ")\",\"reference\":\"" + (m.n == 0 ? "SKIPPED" : "REPEATED") + " pre=" + s128(m.pre) + " trans=" + s128(m.trans) + " post=" + s128(m.post) + "\",\"class\":" + hz::jstr(k) + "}";
      r.sample(sb);
    }
    r.cls(k);
  }
  bool ok = cl.kind == want_kind && glue::unix_of(cl.pre) == clampll(m.pre) &&
            glue::unix_of(cl.trans) == clampll(m.trans) && glue::unix_of(cl.post) == clampll(m.post);
  // stated inequalities on the unclamped reference (self-check of the oracle)
  if (m.n == 0 && !(m.pre >= m.trans && m.trans > m.post)) r.count("oracle_inconsistent");
  if (m.n == 2 && !(m.pre < m.trans && m.trans <= m.post)) r.count("oracle_inconsistent");
  if (!ok && report) {
    char b[500];
    snprintf(b, sizeof b, "zone %s cs=%s: impl kind=%d pre=%lld trans=%lld post=%lld; ref kind=%d pre=%s trans=%s post=%s footer='%s'",
             c.z->id.c_str(), ref::civil_str(cv).c_str(), cl.kind, (long long)glue::unix_of(cl.pre), (long long)glue::unix_of(cl.trans), (long long)glue::unix_of(cl.post),
             want_kind, s128(m.pre).c_str(), s128(m.trans).c_str(), s128(m.post).c_str(), c.rz.raw.footer.c_str());
    r.violation(std::string(prop) + ":mismatch:" + (m.n == 1 ? "unique" : m.n == 0 ? "skipped" : "repeated"), b, replay_args(c, "cs", cs));
  }
  return out;
}

// --------------------------------------------------------------------------
// C03
static void check_c03_fwd(Ctx& c, long long t, hz::Result& r) {
  if (t < INT64_MIN + 86400 || t > INT64_MAX - 86400) return;
  auto tp = glue::tp_of(t);
  cctz::civil_second cs = c.tz.lookup(tp).cs;
  CL cl = c.tz.lookup(cs);
  r.count("evaluations");
  bool ok = (cl.kind == CL::UNIQUE && cl.pre == tp) || (cl.kind == CL::REPEATED && (cl.pre == tp || cl.post == tp));
  r.cls(std::string("C03:fwd:") + (cl.kind == CL::UNIQUE ? "unique" : cl.kind == CL::REPEATED ? "repeated" : "skipped") + ":" + region_of(c, t));
  if (!ok) {
    char b[300];
    snprintf(b, sizeof b, "zone %s t=%lld -> cs=%s -> kind=%d pre=%lld post=%lld", c.z->id.c_str(), t, ref::civil_str(civil_of(cs)).c_str(), cl.kind, (long long)glue::unix_of(cl.pre), (long long)glue::unix_of(cl.post));
    r.violation("C03:roundtrip-fwd", b, replay_args(c, "tp", t));
  }
}
static void check_c03_rev(Ctx& c, i128 csl, hz::Result& r) {
  Civil cv = ref::civil_from_secs(csl);
  cctz::civil_second cs;
  if (!to_cctz(cv, &cs)) return;
  CL cl = c.tz.lookup(cs);
  if (cl.kind == CL::SKIPPED) { r.cls("C03:rev:skipped"); return; }
  auto mn = cctz::time_point<cctz::seconds>::min(), mx = cctz::time_point<cctz::seconds>::max();
  for (int i = 0; i < 2; ++i) {
    auto tp = i ? cl.post : cl.pre;
    if (tp == mn || tp == mx) { r.count("saturated_skipped"); continue; }
    r.count("evaluations");
    r.cls(std::string("C03:rev:") + (cl.kind == CL::UNIQUE ? "unique" : "repeated"));
    cctz::civil_second back = c.tz.lookup(tp).cs;
    if (back != cs) {
      char b[300];
      snprintf(b, sizeof b, "zone %s cs=%s kind=%d %s=%lld displays %s", c.z->id.c_str(), ref::civil_str(cv).c_str(), cl.kind, i ? "post" : "pre", (long long)glue::unix_of(tp), ref::civil_str(civil_of(back)).c_str());
      r.violation("C03:roundtrip-rev", b, replay_args(c, "cs", csl));
    }
  }
}

// --------------------------------------------------------------------------
// C11
struct Change { i128 t; Civil from, to; };

static void model_changes(Ctx& c, i128 upto, std::vector<Change>* out) {
  std::vector<ref::RTrans> trs;
  c.rz.transitions_in(-(static_cast<i128>(1) << 59) + 1, upto, &trs);
  for (auto& tr : trs) {
    if (tr.before.same(tr.after)) continue;
    Change ch;
    ch.t = tr.t;
    ch.to = ref::civil_from_secs(tr.t + tr.after.off);
    ch.from = ref::civil_from_secs(tr.t + tr.before.off);  // = 1 + civil shown at t-1
    out->push_back(ch);
  }
}

typedef cctz::time_zone::civil_transition CT;
static void check_c11(Ctx& c, const std::vector<long long>& I, hz::Result& r) {
  auto TPMIN = cctz::time_point<cctz::seconds>::min(), TPMAX = cctz::time_point<cctz::seconds>::max();
  // reference changes up to a generous horizon (file + 450 rule years)
  i128 horizon = c.last_file + static_cast<i128>(450) * 31556952;
  if (!c.rz.has_rule) horizon = c.last_file + 10;
  if (horizon > IMAX) horizon = IMAX;
  std::vector<Change> R;
  model_changes(c, horizon, &R);
  // A first entry at or before -2^59 that CHANGES the type (no zic writes that; cctz documents the entry as a sentinel
  // that is never reported): whether that one change is reported is a don't-care, but it must be the same in both
  // directions and for every query -- if next_transition(min()) reports it, it is part of the expected set everywhere.
  {
    std::vector<ref::RTrans> bb;
    c.rz.transitions_in(IMIN, -(static_cast<i128>(1) << 59), &bb);
    CT first;
    if (!bb.empty() && !bb.back().before.same(bb.back().after) && c.tz.next_transition(cctz::time_point<cctz::seconds>::min(), &first)) {
      Change ch;
      ch.t = bb.back().t;
      ch.to = ref::civil_from_secs(ch.t + bb.back().after.off);
      ch.from = ref::civil_from_secs(ch.t + bb.back().before.off);
      r.cls("C11:bigbang-entry-changes-type");
      if (civil_of(first.to) == ch.to && civil_of(first.from) == ch.from) { R.insert(R.begin(), ch); r.cls("C11:bigbang-change-reported"); }
    }
  }
  size_t file_changes = 0;
  for (auto& ch : R) if (ch.t <= c.last_file) ++file_changes;
  auto fail = [&](const std::string& sig, const std::string& msg, i128 arg) {
    r.violation("C11:" + sig, "zone " + c.z->id + ": " + msg + " footer='" + c.rz.raw.footer + "'", replay_args(c, "chain", arg));
  };
  // forward chain
  std::vector<long long> chain;
  auto tp = TPMIN;
  CT tr;
  size_t i = 0;
  bool ok = true;
  while (c.tz.next_transition(tp, &tr)) {
    r.count("evaluations");
    if (i >= R.size()) { fail("chain-extra", "forward chain reports more changes than the reference horizon holds, step " + std::to_string(i) + " to=" + ref::civil_str(civil_of(tr.to)), i); ok = false; break; }
    if (civil_of(tr.to) != R[i].to || civil_of(tr.from) != R[i].from) {
      fail("chain-mismatch", "forward chain step " + std::to_string(i) + ": impl from=" + ref::civil_str(civil_of(tr.from)) + " to=" + ref::civil_str(civil_of(tr.to)) + "; ref t=" + s128(R[i].t) + " from=" + ref::civil_str(R[i].from) + " to=" + ref::civil_str(R[i].to), i);
      ok = false;
      break;
    }
    chain.push_back(static_cast<long long>(R[i].t));
    tp = glue::tp_of(static_cast<long long>(R[i].t));
    ++i;
    if (i > 5000) { fail("chain-unbounded", "forward chain longer than 5000", i); ok = false; break; }
  }
  if (!ok) return;
  if (chain.size() < file_changes) {
    fail("chain-short", "forward chain ended after " + std::to_string(chain.size()) + " changes; the file records " + std::to_string(file_changes), chain.size());
    return;
  }
  r.cls(chain.empty() ? "C11:chain-empty" : chain.size() > file_changes ? "C11:chain-extended" : "C11:chain-file-only");
  r.count("chain_elements", chain.size());
  // backward chain
  tp = TPMAX;
  size_t j = chain.size();
  while (c.tz.prev_transition(tp, &tr)) {
    r.count("evaluations");
    if (j == 0) { fail("back-extra", "backward chain longer than forward chain", 0); return; }
    --j;
    if (civil_of(tr.to) != R[j].to || civil_of(tr.from) != R[j].from) {
      fail("back-mismatch", "backward chain at index " + std::to_string(j) + ": impl to=" + ref::civil_str(civil_of(tr.to)) + " ref to=" + ref::civil_str(R[j].to), j);
      return;
    }
    tp = glue::tp_of(chain[j]);
  }
  if (j != 0) { fail("back-short", "backward chain stopped at index " + std::to_string(j), j); return; }
  // endpoints
  if (c.tz.next_transition(TPMAX, &tr)) fail("next-at-max", "next_transition(max()) returned true", 0);
  if (c.tz.prev_transition(TPMIN, &tr)) fail("prev-at-min", "prev_transition(min()) returned true", 0);
  // point queries
  std::vector<long long> Q(I);
  for (long long e : chain) for (int d = -1; d <= 1; ++d) Q.push_back(e + d);
  for (size_t k = 0; k + 1 < chain.size(); ++k) Q.push_back(chain[k] + (chain[k + 1] - chain[k]) / 2);
  std::sort(Q.begin(), Q.end());
  Q.erase(std::unique(Q.begin(), Q.end()), Q.end());
  for (long long t : Q) {
    r.count("evaluations", 2);
    auto up = std::upper_bound(chain.begin(), chain.end(), t);   // first > t
    auto lo = std::lower_bound(chain.begin(), chain.end(), t);   // first >= t ; prev = lo-1
    bool gn = c.tz.next_transition(glue::tp_of(t), &tr);
    bool wn = up != chain.end();
    const char* cls = (wn && *up == t + 1) ? "C11:next:just-before" : (lo != chain.end() && *lo == t) ? "C11:query-at-change" : wn ? "C11:next:inside" : "C11:next:after-last";
    r.cls(cls);
    if (gn != wn || (gn && civil_of(tr.to) != R[up - chain.begin()].to)) {
      fail("next-mismatch", "next_transition(" + std::to_string(t) + ") = " + (gn ? ref::civil_str(civil_of(tr.to)) : "false") + " expected " + (wn ? ref::civil_str(R[up - chain.begin()].to) + " (t=" + std::to_string(*up) + ")" : "false"), t);
      return;
    }
    CT pr;
    bool gp = c.tz.prev_transition(glue::tp_of(t), &pr);
    bool wp = lo != chain.begin();
    r.cls(wp ? "C11:prev:has" : "C11:prev:none");
    if (gp != wp || (gp && (civil_of(pr.to) != R[lo - chain.begin() - 1].to || civil_of(pr.from) != R[lo - chain.begin() - 1].from))) {
      fail("prev-mismatch", "prev_transition(" + std::to_string(t) + ") = " + (gp ? ref::civil_str(civil_of(pr.to)) : "false") + " expected " + (wp ? ref::civil_str(R[lo - chain.begin() - 1].to) : "false"), t);
      return;
    }
  }
  // lookup constant between consecutive chain elements, different across each
  for (size_t k = 0; k < chain.size(); ++k) {
    auto a = c.tz.lookup(glue::tp_of(chain[k]));
    auto b = c.tz.lookup(glue::tp_of(chain[k] - 1));
    r.count("evaluations", 2);
    if (a.offset == b.offset && a.is_dst == b.is_dst && std::string(a.abbr) == b.abbr) {
      fail("noop-reported", "reported change at " + std::to_string(chain[k]) + " alters nothing", chain[k]);
      return;
    }
    if (k + 1 < chain.size()) {
      long long pts[2] = {chain[k] + (chain[k + 1] - chain[k]) / 2, chain[k + 1] - 1};
      for (long long p : pts) {
        auto m = c.tz.lookup(glue::tp_of(p));
        if (m.offset != a.offset || m.is_dst != a.is_dst || std::string(m.abbr) != a.abbr) {
          fail("change-missed", "lookup differs between consecutive reported changes at " + std::to_string(p), p);
          return;
        }
      }
    }
  }
}

// --------------------------------------------------------------------------
// C10 boundary domain
static void c10_domain(Ctx& c, std::vector<long long>* I, std::vector<i128>* C) {
  std::vector<i128> v;
  const i128 k400 = static_cast<i128>(146097) * 86400;
  std::vector<i128> E = {IMIN, IMAX, -(static_cast<i128>(1) << 59), static_cast<i128>(1) << 59, -(static_cast<i128>(1) << 31), static_cast<i128>(1) << 31, 0, (static_cast<i128>(1) << 31) - 1};
  for (int n = 1; n <= 3; ++n) { E.push_back(IMAX - n * k400); E.push_back(IMIN + n * k400); }
  if (c.rz.has_rule) {
    i128 n = (IMAX - c.last_file) / k400;
    for (i128 d = 0; d <= 3; ++d) if (n - d >= 0) E.push_back(c.last_file + (n - d) * k400);
    // rule transitions of the last three representable years
    i128 ymax = ref::civil_from_secs(IMAX).y;
    for (i128 y = ymax - 2; y <= ymax; ++y) { E.push_back(ref::rule_start_utc(c.rz.px, y)); E.push_back(ref::rule_end_utc(c.rz.px, y)); }
  }
  for (size_t i = 0; i < c.rz.times.size(); ++i) if (i < 2 || i + 2 >= c.rz.times.size()) E.push_back(c.rz.times[i]);
  std::vector<i128> D;
  for (int d = -3; d <= 3; ++d) D.push_back(d);
  for (int j = 1; j <= 2; ++j) for (int s = -1; s <= 1; s += 2) for (int e = -1; e <= 1; ++e) D.push_back(s * (86400 * j) + e);
  for (i128 e : E) for (i128 d : D) v.push_back(e + d);
  // thorough: every 7th second of the last/first two days for a quarter of the zones, every 97th for the rest
  const long long stride = g_thorough ? ((std::hash<std::string>()(c.z->id) % 4 == 0) ? 7 : 97) : 3599;
  for (long long s = 0; s <= 2 * 86400; s += stride) { v.push_back(IMAX - s); v.push_back(IMIN + s); }
  std::sort(v.begin(), v.end());
  v.erase(std::unique(v.begin(), v.end()), v.end());
  for (i128 t : v) if (fits(t)) I->push_back(static_cast<long long>(t));
  // civil set
  std::vector<i128> w;
  const i128 cmax = ref::secs_from_civil(Civil{IMAX, 12, 31, 23, 59, 59});
  const i128 cmin = ref::secs_from_civil(Civil{IMIN, 1, 1, 0, 0, 0});
  // the offsets that matter at the ends of the range are the first and the last ones (and the extremes); a zone with
  // hundreds of distinct offsets (the 255-type kinds) does not get the full product
  std::vector<int> offs(c.offs.begin(), c.offs.end());
  if (offs.size() > 14) {
    std::vector<int> keep = {*c.offs.begin(), *c.offs.rbegin()};
    const auto& ty = c.rz.types;
    for (size_t i = 0; i < ty.size(); ++i) if (i < 4 || i + 4 >= ty.size()) keep.push_back(ty[i].off);
    if (c.rz.has_rule) { keep.push_back(c.rz.rule_std.off); keep.push_back(c.rz.rule_dst.off); }
    std::sort(keep.begin(), keep.end());
    keep.erase(std::unique(keep.begin(), keep.end()), keep.end());
    offs = keep;
  }
  for (i128 t : v) for (int o : offs) w.push_back(t + o);
  for (int d = 0; d <= 3; ++d) { w.push_back(cmax - d); w.push_back(cmin + d); }
  for (int o : offs) for (int d = -3; d <= 3; ++d) { w.push_back(IMAX + o + d); w.push_back(IMIN + o + d); }
  std::sort(w.begin(), w.end());
  w.erase(std::unique(w.begin(), w.end()), w.end());
  for (i128 s : w) if (s >= cmin && s <= cmax) C->push_back(s);
}

// --------------------------------------------------------------------------
static bool prepare(const Zone& z, Ctx& c, hz::Result& r) {
  c.z = &z;
  if (z.fixed_off != INT_MIN) {
    c.tz = cctz::fixed_time_zone(cctz::seconds(z.fixed_off));
    ref::RType t;
    t.off = z.fixed_off; t.dst = false; t.abbr = ref::fixed_abbr(z.fixed_off);
    c.rz.types.push_back(t);
    c.rz.ok = true;
  } else {
    c.rz = ref::RZone::from_bytes(z.bytes);
    if (!c.rz.ok) {
      r.count("ref_rejected");
      r.note("reference reader rejects " + z.id + ": " + c.rz.why);
      return false;
    }
    bool ok = glue::load_bytes("verif/" + z.id, z.bytes, &c.tz);
    if (!ok) {
      if (g_prop == "C01")
        r.violation("C01:load-failed", "well-formed zone " + z.id + " (" + z.tags + ") footer='" + c.rz.raw.footer + "' failed to load", {"--zone", z.id, "--what", "load"});
      else r.count("load_failed");
      return false;
    }
  }
  c.offs = c.rz.offsets();
  bool ref0 = false;
  for (int i : c.rz.idx) if (i == 0) ref0 = true;
  c.dc_none_rule = c.rz.times.empty() && c.rz.has_rule;
  if (c.rz.types[0].dst && ref0 && !c.rz.times.empty()) {
    // legacy file: pin the before-first type to what lookup() reports there
    // (must be one of the file's types); everything else is still checked.
    r.count("zones_with_dst_type0_referenced");
    if (c.rz.times.front() > INT64_MIN) {
      auto al = c.tz.lookup(glue::tp_of(static_cast<long long>(c.rz.times.front()) - 1));
      bool found = false;
      for (const auto& t : c.rz.types) if (t.off == al.offset && t.dst == al.is_dst && t.abbr == al.abbr) { c.rz.bf = t; c.rz.has_bf = true; found = true; break; }
      if (!found) r.violation(g_prop + ":before-first-type", "zone " + z.id + ": lookup before the first transition reports a type the file does not contain", {"--zone", z.id, "--what", "load"});
      else if (c.rz.bf.dst) r.cls("zone:legacy:before-first-is-dst"); else r.cls("zone:legacy:before-first-is-std");
    }
  }
  // consistency of the last recorded type with the footer (well-formedness)
  if ((c.rz.has_rule || c.rz.has_std_footer) && !c.rz.times.empty()) {
    ref::RType want = c.rz.has_rule ? c.rz.rule_at(c.rz.times.back()) : c.rz.rule_std;
    if (!want.same(c.rz.types[c.rz.idx.back()])) {
      r.count("zones_last_type_disagrees_with_footer");
      r.note("zone " + z.id + ": last recorded type (" + c.rz.types[c.rz.idx.back()].abbr + ") differs from footer regime (" + want.abbr + ") at the last transition");
    }
  }
  build_breakpoints(c);
  return true;
}

static void run_zone(const Zone& z, hz::Result& r) {
  Ctx c;
  if (!prepare(z, c, r)) return;
  r.count("zones");
  r.cls("zone:" + std::string(z.shipped ? "shipped" : z.fixed_off != INT_MIN ? "fixed" : z.tags.compare(0, 3, "zic") == 0 ? "zic-compiled" : "synthetic") + (c.rz.has_rule ? ":rule" : c.rz.has_std_footer ? ":stdfooter" : ":nofooter"));
  std::vector<long long> I;
  std::vector<i128> C;
  if (g_prop == "C10") c10_domain(c, &I, &C);
  else { instants_of(c, &I); if (g_prop != "C01" && g_prop != "C11") civils_of(c, &C); }
  hz::tick();
  if (g_prop == "C01") {
    for (long long t : I) check_c01_at(c, t, r);
    if (g_thorough && (z.shipped || z.tags.compare(0, 3, "zic") == 0 || (std::hash<std::string>()(z.id) % 2) == 0)) {
      // fixed-stride sweep (all shipped and zic-compiled zones, every 2nd synthetic zone) (21601 s steps would be ~10^6 points/zone; use 86400*3+7 to stay within budget) over [first-2y, last+802y]
      i128 a = (c.rz.times.empty() ? 0 : c.rz.times.front()) - 2 * 31556952LL;
      i128 b = c.last_file + static_cast<i128>(802) * 31556952LL;
      if (c.rz.times.empty()) { a = -3000000000LL; b = 30000000000LL; }
      if (b > IMAX) b = IMAX;
      // a "big bang" first entry (-2^59) must not stretch the sweep over 18 billion years
      if (a < b - static_cast<i128>(1300) * 31556952LL) a = b - static_cast<i128>(1300) * 31556952LL;
      if (a < IMIN) a = IMIN;
      const long long step = 259207;
      long long n = 0;
      for (i128 t = a; t <= b; t += step) { check_c01_at(c, static_cast<long long>(t), r); if ((++n & 0xffff) == 0) hz::tick(); }
      r.count("stride_points", n);
    }
  } else if (g_prop == "C02") {
    for (i128 cs : C) check_c02_at(c, cs, r, true, "C02");
    // and in descending order: every probe now follows a query of the *next* table segment
    for (size_t q = C.size(); q-- > 0;) check_c02_at(c, C[q], r, true, "C02");
    if (g_thorough) {
      // every second of every gap and overlap: all file transitions, rule years ylast..ylast+2, +400, last representable
      std::vector<BP> sel;
      for (const BP& b : c.bps) {
        if (b.oa == b.ob) continue;
        i128 y = ref::civil_from_secs(b.t).y;
        bool file = b.t <= c.last_file;
        if (file || (y >= c.ylast && y <= c.ylast + 2) || (y >= c.ylast + 399 && y <= c.ylast + 402) || y >= ref::civil_from_secs(IMAX).y - 1) sel.push_back(b);
      }
      long long n = 0;
      for (const BP& b : sel) {
        int lo = std::min(b.ob, b.oa), hi = std::max(b.ob, b.oa);
        for (i128 cs = b.t + lo - 2; cs <= b.t + hi + 2; ++cs) { check_c02_at(c, cs, r, true, "C02"); if ((++n & 0xfff) == 0) hz::tick(); }
      }
      r.count("gap_overlap_seconds", n);
    }
  } else if (g_prop == "C03") {
    for (long long t : I) check_c03_fwd(c, t, r);
    for (i128 cs : C) check_c03_rev(c, cs, r);
  } else if (g_prop == "C06") {
    bool have = false;
    long long prev = 0;
    i128 prev_cs = 0;
    for (i128 cs : C) {   // C is sorted ascending
      CivRes cr = check_c02_at(c, cs, r, true, "C06");
      if (!cr.evaluated) continue;
      if (have) {
        r.count("pairs");
        if (cr.conv < prev) {
          char b[300];
          snprintf(b, sizeof b, "zone %s: convert(%s)=%lld > convert(%s)=%lld", c.z->id.c_str(), ref::civil_str(ref::civil_from_secs(prev_cs)).c_str(), prev, ref::civil_str(ref::civil_from_secs(cs)).c_str(), cr.conv);
          r.violation("C06:order", b, replay_args(c, "cs", cs));
        }
      }
      // also exercise the public convert()
      cctz::civil_second ccs;
      if (to_cctz(ref::civil_from_secs(cs), &ccs)) {
        long long cv = glue::unix_of(cctz::convert(ccs, c.tz));
        if (cv != cr.conv) r.violation("C06:convert-inconsistent", "convert() disagrees with lookup() in zone " + c.z->id, replay_args(c, "cs", cs));
      }
      have = true; prev = cr.conv; prev_cs = cs;
    }
    // the relation must hold whichever of the two calls is made first: descending pass
    have = false;
    for (size_t q = C.size(); q-- > 0;) {
      CivRes cr = check_c02_at(c, C[q], r, true, "C06");
      if (!cr.evaluated) continue;
      if (have) {
        r.count("pairs");
        if (cr.conv > prev) {
          char b[300];
          snprintf(b, sizeof b, "zone %s (descending evaluation order): convert(%s)=%lld > convert(%s)=%lld", c.z->id.c_str(), ref::civil_str(ref::civil_from_secs(C[q])).c_str(), cr.conv, ref::civil_str(ref::civil_from_secs(prev_cs)).c_str(), prev);
          r.violation("C06:order-desc", b, replay_args(c, "cs", C[q]));
        }
      }
      have = true; prev = cr.conv; prev_cs = C[q];
    }
  } else if (g_prop == "C10") {
    typedef cctz::time_zone::civil_transition CT;
    CT tr;
    for (long long t : I) {
      check_c01_at(c, t, r);
      auto tp = glue::tp_of(t);
      (void)cctz::convert(tp, c.tz);
      bool n = c.tz.next_transition(tp, &tr);
      bool p = c.tz.prev_transition(tp, &tr);
      r.count("evaluations", 2);
      if (t == INT64_MAX && n) r.violation("C10:next-at-max", "next_transition(max()) true in " + c.z->id, replay_args(c, "tp", t));
      if (t == INT64_MIN && p) r.violation("C10:prev-at-min", "prev_transition(min()) true in " + c.z->id, replay_args(c, "tp", t));
    }
    for (i128 cs : C) {
      CivRes cr = check_c02_at(c, cs, r, true, "C10");
      cctz::civil_second ccs;
      if (cr.evaluated && to_cctz(ref::civil_from_secs(cs), &ccs)) {
        long long cv = glue::unix_of(cctz::convert(ccs, c.tz));
        if (cv != cr.conv) r.violation("C10:convert-inconsistent", "convert() disagrees with lookup() in zone " + c.z->id, replay_args(c, "cs", cs));
      }
    }
    // the last representable civil second of the zone converts exactly; one later saturates
    // (judged by the reference: when an overlap straddles max() that civil second is REPEATED and
    // convert() correctly returns the earlier reading)
    ref::RType lt = c.rz.at(IMAX);
    i128 last_cs = IMAX + lt.off;
    for (int d = 0; d <= 1; ++d) {
      CivRes cr = check_c02_at(c, last_cs + d, r, true, "C10");
      if (cr.evaluated) r.cls(d ? "C10:one-past-last" : "C10:last-representable");
    }
  } else if (g_prop == "C11") {
    check_c11(c, I, r);
  }
}

// --------------------------------------------------------------------------
static std::vector<Zone> build_corpus(const hz::Args& a, hz::Result& r) {
  std::vector<Zone> zs;
  std::string dir = a.repo + "/testdata/zoneinfo";
  for (auto& n : glue::shipped_zone_names(dir)) {
    Zone z; z.id = n; z.shipped = true; z.bytes = glue::read_file(dir + "/" + n); z.tags = "shipped";
    zs.push_back(z);
  }
  r.counters["corpus_shipped"] = zs.size();
  tzgen::GenStats st;
  auto fam = tzgen::family(a.thorough(), &st);
  for (auto& g : fam) { Zone z; z.id = g.id; z.bytes = g.bytes; z.tags = g.tags; zs.push_back(z); }
  r.counters["corpus_synthetic"] = fam.size();
  r.counters["synthetic_filtered_spacing"] = st.filtered_spacing;
  r.counters["synthetic_filtered_rule_order"] = st.filtered_rule_order;
  r.counters["synthetic_filtered_ref_reject"] = st.filtered_ref_reject;
  // zones compiled by the system zic, slim and fat (optional cross-check of the generator's assumptions)
  {
    const std::string zic = "/usr/sbin/zic", zi = std::string(VERIF_SRC_DIR) + "/zic/verif.zi";
    long long nz = 0;
    if (access(zic.c_str(), X_OK) == 0 && !a.workdir.empty()) {
      for (const char* mode : {"slim", "fat"}) {
        const std::string out = a.workdir + "/zic-" + mode;
        const std::string cmd = zic + " -b " + mode + " -d " + out + " " + zi + " >/dev/null 2>&1";
        if (system(cmd.c_str()) != 0) continue;
        for (auto& n : glue::shipped_zone_names(out)) {
          Zone z; z.id = std::string("zic-") + mode + "/" + n; z.bytes = glue::read_file(out + "/" + n); z.tags = std::string("zic,") + mode;
          zs.push_back(z);
          ++nz;
        }
      }
    }
    r.counters["corpus_zic_compiled"] = nz;
    if (nz == 0) r.note("system zic not available: zic cross-check zones skipped");
  }
  if (g_prop == "C10" || g_prop == "C03" || g_prop == "C06") {
    const int fo[] = {1, -1, 3600, -3600, 86399, -86399, 86400, -86400, 20700, -30};
    for (int o : fo) { Zone z; z.id = "fixed/" + std::to_string(o); z.fixed_off = o; z.tags = "fixed"; zs.push_back(z); }
  }
  return zs;
}

int main(int argc, char** argv) {
  hz::Args a = hz::parse_args(argc, argv);
  g_prop = a.prop;
  g_thorough = a.thorough();
  g_k = g_thorough ? 4 : 2;
  if (!ref::self_check()) { fprintf(stderr, "reference calendar self-check failed\n"); return 2; }
  glue::install_factory();
  hz::Result total;
  std::vector<Zone> zs = build_corpus(a, total);

  // replay mode: one zone, one probe
  if (a.has("--zone")) {
    std::string id = a.get("--zone"), what = a.get("--what");
    i128 arg = 0; { std::string s = a.get("--arg", "0"); bool neg = s[0] == '-'; for (char ch : s) if (ch >= '0' && ch <= '9') arg = arg * 10 + (ch - '0'); if (neg) arg = -arg; }
    for (auto& z : zs) if (z.id == id) {
      Ctx c; hz::Result r;
      if (!prepare(z, c, r)) { total.merge(r); break; }
      if (what == "tp") { if (g_prop == "C03") check_c03_fwd(c, (long long)arg, r); else check_c01_at(c, (long long)arg, r); }
      else if (what == "cs") { if (g_prop == "C03") check_c03_rev(c, arg, r); else check_c02_at(c, arg, r, true, g_prop.c_str()); }
      else if (what == "chain") { std::vector<long long> I; instants_of(c, &I); check_c11(c, I, r); }
      total.merge(r);
    }
    return hz::finish(a, total);
  }

  const int nshards = 64;
  hz::PoolOpts po; po.workers = a.workers; po.prop = a.prop;
  hz::run_shards(nshards, po, a.workdir, [&](const hz::ShardCtl& ctl, hz::Result& r) {
    for (size_t i = ctl.shard; i < zs.size(); i += nshards) {
      if (ctl.skipped(i)) continue;
      if (a.time_up()) { r.exhaustive = false; r.note("deadline reached before zone index " + std::to_string(i)); break; }
      hz::begin_case(i, zs[i].id + " " + zs[i].tags);
      run_zone(zs[i], r);
    }
  }, &total, [&](long long cid, const std::string&) -> std::vector<std::string> {
    if (cid < 0 || cid >= (long long)zs.size()) return {};
    return {"--zone", zs[cid].id, "--what", "all"};
  });
  // a few concrete samples
  for (size_t i = 0; i < zs.size() && total.samples.size() < 6; i += zs.size() / 5 + 1)
    total.sample("{\"zone\":" + hz::jstr(zs[i].id) + ",\"tags\":" + hz::jstr(zs[i].tags) + "}");
  if (total.counters["ref_rejected"] > 0) total.note("BROKEN: reference reader rejected corpus zones");
  return hz::finish(a, total);
}
