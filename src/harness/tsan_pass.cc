// Free-running ThreadSanitizer side pass for C13 (a race DETECTOR, sampling -
// not the deciding step): the same thread bodies as the schedule explorer, built
// unhooked with -fsanitize=thread and run on real threads (k up to 64), many
// repetitions.  Each repetition also goes through the C13/C20 oracles.
#define VERIF_FREE_RUNNING 1
#include <thread>

#include "../common/harness.h"
#include "../sched/bodies.h"

using bodies::Harness;
using bodies::Obs;

static void one_round(const Harness& h, int k, const std::vector<Obs>& seq_small, hz::Result& r, const std::string& prop) {
  bodies::apply_env(h);
  cctz::time_zone::Impl::ClearTimeZoneMapTestOnly();
  bodies::world().reset_exec(k);
  for (auto& n : h.preload) { cctz::time_zone tz; cctz::load_time_zone(n, &tz); }
  std::vector<Obs> obs(k);
  std::vector<std::thread> th;
  std::atomic<int> gate{0};
  for (int t = 0; t < k; ++t)
    th.emplace_back([&, t] {
      gate.fetch_add(1);
      while (gate.load() < k) std::this_thread::yield();  // start together
      bodies::run_ops(h.threads[t % h.threads.size()], &obs[t]);
    });
  for (auto& x : th) x.join();
  std::vector<Obs> seq(k);
  for (int t = 0; t < k; ++t) seq[t] = seq_small[t % seq_small.size()];
  Harness hk = h;
  hk.threads.clear();
  for (int t = 0; t < k; ++t) hk.threads.push_back(h.threads[t % h.threads.size()]);
  bodies::Verdict v = bodies::judge(hk, obs, seq);
  r.count("evaluations");
  r.cls("C13:tsan:" + h.id + ":k=" + std::to_string(k));
  const std::vector<std::string>& vv = (prop == "C20") ? v.c20 : v.c13;
  if (!vv.empty()) r.violation(prop + ":free-running:" + h.id, "free-running execution of " + h.id + " with " + std::to_string(k) + " threads: " + vv[0], {});
}

int main(int argc, char** argv) {
  hz::Args a = hz::parse_args(argc, argv);
  bodies::setup_world();
  hz::Result total;
  std::vector<Harness> hs = bodies::harnesses();
  for (auto& c : bodies::coarse_harnesses()) hs.push_back(c);
  const int reps = a.thorough() ? 200 : 40;
  const std::vector<int> ks = {0 /* = as written */, 8, 64};
  // one forked child per harness so that a TSan report (exit code 66) is attributed
  hz::PoolOpts po; po.workers = 4; po.hang_s = 120;
  hz::run_shards(static_cast<int>(hs.size()), po, a.workdir, [&](const hz::ShardCtl& ctl, hz::Result& r) {
    const Harness& h = hs[ctl.shard];
    hz::begin_case(ctl.shard, "tsan " + h.id);
    // sequential reference
    bodies::apply_env(h);
    cctz::time_zone::Impl::ClearTimeZoneMapTestOnly();
    bodies::world().reset_exec(h.threads.size());
    for (auto& n : h.preload) { cctz::time_zone tz; cctz::load_time_zone(n, &tz); }
    std::vector<Obs> seq(h.threads.size());
    for (size_t t = 0; t < h.threads.size(); ++t) bodies::run_ops(h.threads[t], &seq[t]);
    for (int rep = 0; rep < reps; ++rep)
      for (int k : ks) { if (k == 64 && (rep % 4)) continue; one_round(h, k ? k : static_cast<int>(h.threads.size()), seq, r, a.prop); hz::tick(); }
  }, &total);
  total.counters["tsan_runs"] = total.counters["evaluations"];
  total.sample("{\"tsan_pass\":\"harness bodies H1..H8 free-running on 2..64 real threads under -fsanitize=thread; any ThreadSanitizer report ends the child with exit code 66 and is reported with its signature\"}");
  return hz::finish(a, total);
}
