// E4-style harness for C19: exhaustive enumeration of process environments
// (TZDIR x TZ x LOCALTIME) x zone names.  The environment is process-global and
// results are cached, so every configuration runs in a fresh exec of this binary
// in --probe mode; the parent compares with a reference resolver written from
// the header comments (name -> path -> reference TZif reader).
#include <spawn.h>
#include <sys/stat.h>
#include <sys/wait.h>
#include <unistd.h>

#include "../common/harness.h"
#include "../common/impl_glue.h"
#include "../common/ref_fixed.h"
#include "../common/ref_zone.h"
#include "../common/tzgen.h"

extern char** environ;

static const long long kT[3] = {0, 1200000000LL, -1500000000LL};

static std::string describe(bool ok, const cctz::time_zone& tz) {
  std::ostringstream o;
  o << (ok ? 1 : 0) << "\t" << (tz == cctz::utc_time_zone() ? 1 : 0) << "\t" << hz::hex(tz.name());
  for (long long t : kT) { auto al = tz.lookup(glue::tp_of(t)); o << "\t" << al.offset << "," << al.is_dst << "," << al.abbr; }
  return o.str();
}

static int probe_main(int argc, char** argv) {
  // argv: --probe name-hex...
  for (int i = 2; i < argc; ++i) {
    std::string name = hz::unhex(argv[i]);
    cctz::time_zone tz;
    bool ok = cctz::load_time_zone(name, &tz);
    printf("N\t%s\t%s\n", argv[i], describe(ok, tz).c_str());
    // a second load must agree (cache) and a failure must keep failing
    cctz::time_zone tz2;
    bool ok2 = cctz::load_time_zone(name, &tz2);
    if (ok2 != ok || tz2 != tz) printf("E\treload of %s differs\n", argv[i]);
  }
  cctz::time_zone lt = cctz::local_time_zone();
  printf("L\t-\t%s\n", describe(lt != cctz::utc_time_zone(), lt).c_str());
  printf("D\t-\t%d\n", cctz::time_zone() == cctz::utc_time_zone() ? 1 : 0);
  return 0;
}

struct Env { bool tzdir_set, tz_set, lt_set; std::string tzdir, tz, lt; std::string label; };

// ---- reference resolver -----------------------------------------------------
struct Expect { bool ok; std::string name; int off[3]; bool dst[3]; std::string abbr[3]; };

static bool is_regular_readable(const std::string& path, std::string* bytes) {
  struct stat st;
  if (stat(path.c_str(), &st) != 0) return false;
  if (!S_ISREG(st.st_mode)) return false;
  *bytes = glue::read_file(path);
  return true;
}

static Expect utc_expect() {
  Expect e; e.ok = false; e.name = "UTC";
  for (int i = 0; i < 3; ++i) { e.off[i] = 0; e.dst[i] = false; e.abbr[i] = "UTC"; }
  return e;
}

static Expect resolve_name(const std::string& name, const Env& env) {
  Expect e = utc_expect();
  long long fo = 0;
  if (ref::fixed_from_name(name, &fo)) {
    e.ok = true;
    e.name = (fo == 0) ? "UTC" : name;
    for (int i = 0; i < 3; ++i) { e.off[i] = static_cast<int>(fo); e.abbr[i] = ref::fixed_abbr(fo); }
    return e;
  }
  std::string n = name;
  if (n.compare(0, 5, "file:") == 0) n = n.substr(5);
  std::string path;
  if (!n.empty() && n[0] == '/') path = n;
  else path = ((env.tzdir_set && !env.tzdir.empty()) ? env.tzdir : std::string("/usr/share/zoneinfo")) + "/" + n;
  std::string bytes;
  if (!is_regular_readable(path, &bytes)) return e;
  ref::RZone z = ref::RZone::from_bytes(bytes);
  if (!z.ok) return e;
  e.ok = true;
  e.name = name;
  for (int i = 0; i < 3; ++i) { ref::RType t = z.at(kT[i]); e.off[i] = t.off; e.dst[i] = t.dst; e.abbr[i] = t.abbr; }
  return e;
}

static Expect resolve_local(const Env& env) {
  std::string zone = ":localtime";
  if (env.tz_set) zone = env.tz;
  if (!zone.empty() && zone[0] == ':') zone = zone.substr(1);
  if (zone == "localtime") {
    zone = "/etc/localtime";
    if (env.lt_set) zone = env.lt;
  }
  return resolve_name(zone, env);
}

// ---- orchestration -----------------------------------------------------------
static std::string run_child(const std::string& self, const std::vector<std::string>& args, const Env& env, int* status) {
  int fds[2];
  if (pipe(fds) != 0) return "";
  std::vector<std::string> envs = {"LC_ALL=C", "PATH=/usr/bin:/bin", "ASAN_OPTIONS=detect_leaks=0", "UBSAN_OPTIONS=halt_on_error=1:print_stacktrace=1"};
  if (env.tzdir_set) envs.push_back("TZDIR=" + env.tzdir);
  if (env.tz_set) envs.push_back("TZ=" + env.tz);
  if (env.lt_set) envs.push_back("LOCALTIME=" + env.lt);
  std::vector<char*> av, ev;
  av.push_back(const_cast<char*>(self.c_str()));
  for (auto& a : args) av.push_back(const_cast<char*>(a.c_str()));
  av.push_back(nullptr);
  for (auto& e : envs) ev.push_back(const_cast<char*>(e.c_str()));
  ev.push_back(nullptr);
  pid_t pid = fork();
  if (pid == 0) {
    dup2(fds[1], 1);
    close(fds[0]); close(fds[1]);
    execve(self.c_str(), av.data(), ev.data());
    _exit(127);
  }
  close(fds[1]);
  std::string out;
  char buf[4096];
  ssize_t n;
  while ((n = read(fds[0], buf, sizeof buf)) > 0) out.append(buf, n);
  close(fds[0]);
  waitpid(pid, status, 0);
  return out;
}

static void mkdirs(const std::string& p) {
  for (size_t i = 1; i <= p.size(); ++i) if (i == p.size() || p[i] == '/') mkdir(p.substr(0, i).c_str(), 0755);
}
static void write_file(const std::string& p, const std::string& b) {
  mkdirs(p.substr(0, p.rfind('/')));
  std::ofstream f(p, std::ios::binary);
  f << b;
}

int main(int argc, char** argv) {
  if (argc > 1 && std::string(argv[1]) == "--probe") return probe_main(argc, argv);
  hz::Args a = hz::parse_args(argc, argv);
  hz::Result total;
  char selfbuf[4096];
  ssize_t sl = readlink("/proc/self/exe", selfbuf, sizeof selfbuf - 1);
  if (sl <= 0) return 2;
  const std::string self(selfbuf, sl);
  // fixture
  const std::string F = a.workdir + "/fixture";
  const std::string src = a.repo + "/testdata/zoneinfo";
  for (const char* n : {"America/New_York", "Europe/London", "Asia/Kathmandu", "Australia/Lord_Howe"}) write_file(F + "/" + n, glue::read_file(src + "/" + n));
  const std::string ny = glue::read_file(src + "/America/New_York");
  ref::TzifRaw raw = ref::read_tzif(ny);
  write_file(F + "/bad/empty", "");
  write_file(F + "/bad/trunc_header", ny.substr(0, 30));
  write_file(F + "/bad/trunc_second_header", ny.substr(0, 44 + 20));
  write_file(F + "/bad/trunc_data", ny.substr(0, ny.size() / 2));
  write_file(F + "/bad/trunc_before_footer", ny.substr(0, raw.consumed - raw.footer.size() - 2));
  write_file(F + "/bad/trunc_in_footer", ny.substr(0, ny.size() - 3));
  write_file(F + "/bad/garbage", std::string(200, 'x'));
  {  // a version-1-only file (no second block, no footer) is valid and must load; trailing bytes after the data are tolerated
    tzgen::TzSpec sp; sp.version = 1; sp.types = {{-1234, false, "LMT"}, {3600, false, "CET"}}; sp.times = {-1000000000LL}; sp.idx = {1};
    const std::string v1 = tzgen::write_tzif(sp);
    write_file(F + "/good/v1only", v1);
    write_file(F + "/good/v1only_with_trailing_garbage", v1 + "garbage after the data block");
  }
  // every truncation point from just before the footer to one byte short of the end
  std::vector<std::string> footer_cuts;
  for (size_t cut = raw.consumed - raw.footer.size() - 3; cut < ny.size(); ++cut) {
    const std::string n = "bad/cut_" + std::to_string(cut);
    write_file(F + "/" + n, ny.substr(0, cut));
    footer_cuts.push_back(n);
  }
  {
    const std::string lh = glue::read_file(src + "/Australia/Lord_Howe");
    ref::TzifRaw r2 = ref::read_tzif(lh);
    for (size_t cut = r2.consumed - r2.footer.size() - 3; cut < lh.size(); ++cut) {
      const std::string n = "bad/lh_cut_" + std::to_string(cut);
      write_file(F + "/" + n, lh.substr(0, cut));
      footer_cuts.push_back(n);
    }
  }
  {  // a "right/" style file with one leap-second record
    tzgen::TzSpec sp; sp.version = 2; sp.types = {{-18000, false, "EST"}}; sp.footer = "EST5";
    std::string b = tzgen::write_tzif(sp);
    // patch leapcnt := 1 in the second header and insert a 12-byte record before the footer
    size_t h2 = 44 + (6 + 4);  // v1 block of the slim writer: 1 type (6) + "EST\0" (4)
    b[h2 + 20 + 8 + 3] = 1;
    size_t foot = b.rfind("\nEST5\n");
    b.insert(foot, std::string("\0\0\0\0\x04\xb2\x58\x00\0\0\0\x01", 12));
    write_file(F + "/bad/leap", b);
  }
  std::vector<std::string> names = {"America/New_York", "Nope/Missing", F + "/Europe/London", "/nonexistent/x", "file:America/New_York", "file:" + F + "/Europe/London", "",
                                    "America", "bad/empty", "bad/trunc_header", "bad/trunc_second_header", "bad/trunc_data", "bad/trunc_before_footer", "bad/trunc_in_footer", "bad/garbage", "bad/leap",
                                    ":America/New_York", "UTC", "UTC0", "Fixed/UTC+05:30:00", "Fixed/UTC-00:00:01", "file:", "file:Nope", "file:bad/empty", "Europe/London", "europe/london", "America/New_York/", "./America/New_York", "America//New_York",
                                    "file:file:America/New_York", "File:America/New_York", "file:/America/New_York", "good/v1only", "good/v1only_with_trailing_garbage", "localtime", ":localtime",
                                    // only the PREFIX-FREE spellings of UTC / fixed-offset names are resolved internally; behind "file:" they are file names
                                    "file:UTC", "file:UTC0", "file:Fixed/UTC+01:00:00", "file:Fixed/UTC+00:00:00", "file:Fixed/UTC-23:59:59"};
  for (auto& n : footer_cuts) names.push_back(n);
  std::vector<Env> envs;
  struct V { bool set; std::string v; std::string label; };
  std::vector<V> tzdirs = {{false, "", "unset"}, {true, "", "empty"}, {true, F, "valid"}, {true, "/nonexistent-dir", "missing"}, {true, F + "/", "valid-slash"}};
  std::vector<V> tzs = {{false, "", "unset"}, {true, "", "empty"}, {true, "America/New_York", "X"}, {true, ":America/New_York", ":X"}, {true, "::America/New_York", "::X"}, {true, "localtime", "localtime"},
                        {true, ":localtime", ":localtime"}, {true, "Nope/Invalid", "invalid"}, {true, F + "/Asia/Kathmandu", "abs"}, {true, "UTC", "UTC"}, {true, ":", "colon-only"}, {true, "Fixed/UTC+01:00:00", "fixed"}, {true, "localtime2", "localtime-prefix"}, {true, "LOCALTIME", "localtime-uppercase"},
                        {true, "file:America/New_York", "file-prefixed"}};
  std::vector<V> lts = {{false, "", "unset"}, {true, F + "/Australia/Lord_Howe", "valid"}, {true, "/nonexistent", "invalid"}, {true, "", "empty"}, {true, "Asia/Kathmandu", "relative"}};
  for (auto& d : tzdirs) for (auto& t : tzs) for (auto& l : lts) envs.push_back({d.set, t.set, l.set, d.v, t.v, l.v, "TZDIR=" + d.label + " TZ=" + t.label + " LOCALTIME=" + l.label});
  std::vector<std::string> hexnames;
  for (auto& n : names) hexnames.push_back(n.empty() ? "" : hz::hex(n));
  total.counters["environments"] = envs.size();
  total.counters["names"] = names.size();
  {
    struct stat st;
    total.note(std::string("/etc/localtime on this machine: ") + (stat("/etc/localtime", &st) == 0 ? "present" : "absent") + "; /usr/share/zoneinfo: " + (stat("/usr/share/zoneinfo", &st) == 0 ? "present" : "absent") + " (the reference resolver reads what is there)");
  }
  std::string only = a.get("--env");
  for (size_t ei = 0; ei < envs.size(); ++ei) {
    const Env& env = envs[ei];
    if (!only.empty() && env.label != only) continue;
    std::vector<std::string> args = {"--probe"};
    for (auto& h : hexnames) args.push_back(h.empty() ? "00" : h);  // "" cannot travel as empty argv reliably: marker below
    // empty name: encode as the single byte sequence "" via the special token "-"
    for (auto& x : args) if (x == "00") x = "";
    int st = 0;
    std::string out = run_child(self, args, env, &st);
    std::vector<std::string> ra = {"--env", env.label};
    if (!WIFEXITED(st) || WEXITSTATUS(st) != 0) {
      total.violation("C19:probe-crashed", "probe process died in environment [" + env.label + "]: " + out.substr(0, 300), ra);
      continue;
    }
    std::istringstream is(out);
    std::string line;
    size_t ni = 0;
    while (std::getline(is, line)) {
      std::vector<std::string> f;
      std::istringstream ls(line);
      std::string tok;
      while (std::getline(ls, tok, '\t')) f.push_back(tok);
      if (f.empty()) continue;
      if (f[0] == "E") { total.violation("C19:reload-differs", "[" + env.label + "] " + line, ra); continue; }
      if (f[0] == "D") { total.count("evaluations"); if (f.size() < 3 || f[2] != "1") total.violation("C19:default-not-utc", "[" + env.label + "] default-constructed time_zone != utc_time_zone()", ra); continue; }
      if (f.size() < 8) continue;
      const bool is_local = f[0] == "L";
      Expect e;
      std::string what;
      if (is_local) { e = resolve_local(env); what = "local_time_zone()"; }
      else { if (ni >= names.size()) continue; e = resolve_name(names[ni], env); what = "load_time_zone(" + hz::jstr(names[ni]) + ")"; ++ni; }
      total.count("evaluations");
      const bool ok = f[2] == "1", isutc = f[3] == "1";
      const std::string zname = hz::unhex(f[4]);
      std::string got, want;
      bool bad = false;
      if (!is_local && ok != e.ok) bad = true;
      if (isutc != (!e.ok || e.name == "UTC")) bad = true;
      if (!is_local && zname != e.name) bad = true;  // name() of local_time_zone() is documented as unspecified
      for (int i = 0; i < 3; ++i) {
        char w[100];
        snprintf(w, sizeof w, "%d,%d,%s", e.off[i], e.dst[i] ? 1 : 0, e.abbr[i].c_str());
        want += std::string(w) + " ";
        got += f[5 + i] + " ";
        if (f[5 + i] != w) bad = true;
      }
      total.cls(std::string("C19:") + (is_local ? "local:" : "load:") + (e.ok ? (e.name == "UTC" ? "utc" : "zone") : "fallback-utc"));
      if (bad)
        total.violation(std::string("C19:") + (is_local ? "local" : "load") + "-mismatch", "[" + env.label + "] " + what + ": got ok=" + f[2] + " utc=" + f[3] + " name='" + zname + "' " + got + "; expected ok=" + std::to_string(e.ok) + " name='" + e.name + "' " + want, ra);
    }
    if (ni != names.size()) total.violation("C19:probe-output", "[" + env.label + "] probe answered " + std::to_string(ni) + " of " + std::to_string(names.size()) + " names", ra);
  }
  total.sample("{\"env\":\"TZDIR=valid TZ=:localtime LOCALTIME=valid\",\"call\":\"local_time_zone()\",\"expected\":\"the zone stored at $LOCALTIME\"}");
  total.sample("{\"env\":\"TZDIR=missing TZ=unset LOCALTIME=unset\",\"call\":\"load_time_zone(\\\"America/New_York\\\")\",\"expected\":\"false, UTC\"}");
  return hz::finish(a, total);
}
