// E2 harness for C14: explicit-state exploration of the hidden state of the
// real objects.  Hint part: the two remembered table indices of a loaded zone
// (read and forced through the private members; compiled -fno-access-control,
// nothing in /repo is edited).  Cache part: all load sequences up to a depth
// over a small name alphabet, against a 10-line reference map.
#include <climits>
#include <sys/wait.h>
#include <unistd.h>

#include "../common/harness.h"
#include "../common/impl_glue.h"
#include "../common/tzgen.h"
#include "time_zone_impl.h"
#include "time_zone_info.h"

typedef cctz::time_zone::civil_lookup CL;

static cctz::TimeZoneInfo* info_of(const cctz::time_zone& tz) {
  const cctz::time_zone::Impl& impl = tz.effective_impl();
  return dynamic_cast<cctz::TimeZoneInfo*>(impl.zone_.get());
}

// kind: 0 lookup(tp)  1 lookup(cs)  2 next_transition(tp)  3 prev_transition(tp)  4 format(tp)  5 parse(text of cs)
struct Probe { bool is_cs; long long t; cctz::civil_second cs; long long iv = -1000; int kind = -1; };  // iv: table interval the probe was derived from
static bool g_thorough = false;

static std::string ans_tp(const cctz::time_zone& tz, long long t) {
  auto al = tz.lookup(glue::tp_of(t));
  char b[200];
  snprintf(b, sizeof b, "%lld-%d-%d %d:%d:%d o%d d%d %s", (long long)al.cs.year(), al.cs.month(), al.cs.day(), al.cs.hour(), al.cs.minute(), al.cs.second(), al.offset, al.is_dst, al.abbr);
  return b;
}
static std::string ans_cs(const cctz::time_zone& tz, const cctz::civil_second& cs) {
  CL cl = tz.lookup(cs);
  char b[200];
  snprintf(b, sizeof b, "k%d %lld %lld %lld", cl.kind, (long long)glue::unix_of(cl.pre), (long long)glue::unix_of(cl.trans), (long long)glue::unix_of(cl.post));
  return b;
}
static std::string cs_text(const cctz::civil_second& cs) {
  char b[100];
  snprintf(b, sizeof b, "%lld-%02d-%02dT%02d:%02d:%02d", (long long)cs.year(), cs.month(), cs.day(), cs.hour(), cs.minute(), cs.second());
  return b;
}
static std::string ans_trans(const cctz::time_zone& tz, long long t, bool next) {
  cctz::time_zone::civil_transition tr;
  const bool ok = next ? tz.next_transition(glue::tp_of(t), &tr) : tz.prev_transition(glue::tp_of(t), &tr);
  if (!ok) return "none";
  return cs_text(tr.from) + ">" + cs_text(tr.to);
}
static std::string ans_parse(const cctz::time_zone& tz, const cctz::civil_second& cs) {
  cctz::time_point<cctz::seconds> tp;
  const bool ok = cctz::parse("%Y-%m-%dT%H:%M:%S", cs_text(cs), tz, &tp);
  return ok ? "ok " + std::to_string(glue::unix_of(tp)) : "fail";
}
static int kind_of(const Probe& p) { return p.kind >= 0 ? p.kind : (p.is_cs ? 1 : 0); }
static std::string ans(const cctz::time_zone& tz, const Probe& p) {
  switch (kind_of(p)) {
    case 0: return ans_tp(tz, p.t);
    case 1: return ans_cs(tz, p.cs);
    case 2: return ans_trans(tz, p.t, true);
    case 3: return ans_trans(tz, p.t, false);
    case 4: return cctz::format("%Y-%m-%dT%H:%M:%S %Ez %Z %a %j", glue::tp_of(p.t), tz);
    default: return ans_parse(tz, p.cs);
  }
}
static const char* kind_name(int k) { static const char* n[] = {"BreakTime", "MakeTime", "NextTransition", "PrevTransition", "format", "parse"}; return n[k]; }
static std::string probe_str(const Probe& p) {
  switch (kind_of(p)) {
    case 0: return "lookup(tp " + std::to_string(p.t) + ")";
    case 1: return "lookup(cs " + cs_text(p.cs) + ")";
    case 2: return "next_transition(tp " + std::to_string(p.t) + ")";
    case 3: return "prev_transition(tp " + std::to_string(p.t) + ")";
    case 4: return "format(tp " + std::to_string(p.t) + ")";
    default: return "parse(" + cs_text(p.cs) + ")";
  }
}

struct ZoneIn { std::string id, bytes; };

static void hint_part(const ZoneIn& z, bool full_product_allowed, hz::Result& r) {
  cctz::time_zone tz;
  if (!glue::load_bytes("hs/" + z.id, z.bytes, &tz)) { r.count("load_failed"); return; }
  cctz::TimeZoneInfo* ti = info_of(tz);
  if (!ti) { r.count("not_a_TimeZoneInfo"); return; }
  const size_t n = ti->transitions_.size();
  r.count("zones");
  // probe panel derived from the live table: each interval's ends and middle, both keys
  std::vector<Probe> P;
  long long cur_iv = -1000;
  auto add_tp = [&](long long t) { Probe q{false, t, cctz::civil_second()}; q.iv = cur_iv; P.push_back(q); };
  auto add_cs = [&](const cctz::civil_second& c) { Probe q{true, 0, c}; q.iv = cur_iv; P.push_back(q); };
  auto add_kind = [&](int kind, long long t, const cctz::civil_second& c) { Probe q{kind == 5, t, c}; q.iv = cur_iv; q.kind = kind; P.push_back(q); };
  for (size_t i = 0; i < n; ++i) {
    cur_iv = static_cast<long long>(i);
    const cctz::Transition& tr = ti->transitions_[i];
    const long long t = tr.unix_time;
    if (t > INT64_MIN) add_tp(t - 1);
    add_tp(t);
    // transition queries on both sides of the entry; format / parse (built on the two lookups) on every 4th entry
    if (t > INT64_MIN) add_kind(2, t - 1, cctz::civil_second());
    add_kind(2, t, cctz::civil_second());
    add_kind(3, t, cctz::civil_second());
    if (t < INT64_MAX) add_kind(3, t + 1, cctz::civil_second());
    if ((i % 4) == 0 || i + 2 >= n) { add_kind(4, t, cctz::civil_second()); add_kind(5, 0, tr.civil_sec); }
    if (i + 1 < n) add_tp(t + (ti->transitions_[i + 1].unix_time - t) / 2);
    add_cs(tr.civil_sec);
    add_cs(tr.prev_civil_sec);
    if (tr.prev_civil_sec + 1 < tr.civil_sec) add_cs(tr.prev_civil_sec + (tr.civil_sec - tr.prev_civil_sec) / 2);   // inside the gap
    if (tr.civil_sec < tr.prev_civil_sec) add_cs(tr.civil_sec + (tr.prev_civil_sec - tr.civil_sec) / 2);            // inside the overlap
    if (i + 1 < n) add_cs(tr.civil_sec + (ti->transitions_[i + 1].civil_sec - tr.civil_sec) / 2);
  }
  cur_iv = -1000;
  const long long far[] = {INT64_MIN, INT64_MAX, 1LL << 40, 32503680000LL, 253402300800LL};
  for (long long t : far) { add_tp(t); add_kind(2, t, cctz::civil_second()); add_kind(3, t, cctz::civil_second()); add_kind(4, t, cctz::civil_second()); }
  add_kind(5, 0, cctz::civil_second(2500, 7, 1, 12, 0, 0));
  add_cs(cctz::civil_second(2500, 7, 1, 12, 0, 0));
  add_cs(cctz::civil_second(123456, 3, 31, 2, 30, 0));
  add_cs(cctz::civil_second::max());
  add_cs(cctz::civil_second::min());
  // expected answers: the fresh state (0,0), i.e. what a just-loaded zone answers
  std::vector<std::string> expect(P.size());
  for (size_t k = 0; k < P.size(); ++k) {
    ti->local_time_hint_.store(0);
    ti->time_local_hint_.store(0);
    expect[k] = ans(tz, P[k]);
  }
  // reachable hint values: apply every probe as a real API call from the fresh state and read the members
  std::set<size_t> reach1, reach2;
  reach1.insert(0); reach2.insert(0);
  for (size_t k = 0; k < P.size(); ++k) {
    ti->local_time_hint_.store(0);
    ti->time_local_hint_.store(0);
    (void)ans(tz, P[k]);
    r.count("transitions");
    const size_t h1 = ti->local_time_hint_.load(), h2 = ti->time_local_hint_.load();
    if (kind_of(P[k]) == 1 && h1 != 0) r.violation("C14:cross-direction-hint", "zone " + z.id + ": " + probe_str(P[k]) + " changed the BreakTime hint", {"--zone", z.id});
    if (kind_of(P[k]) == 0 && h2 != 0) r.violation("C14:cross-direction-hint", "zone " + z.id + ": " + probe_str(P[k]) + " changed the MakeTime hint", {"--zone", z.id});
    reach1.insert(h1);
    reach2.insert(h2);
  }
  // also values a racing/stale store could leave behind (C13's memory-order argument): every index 0..n
  std::vector<size_t> all1(reach1.begin(), reach1.end()), all2(reach2.begin(), reach2.end());
  r.count("reachable_hint_values", static_cast<long long>(reach1.size() + reach2.size()));
  r.cls(std::string("C14:hints:table-size-") + (n <= 16 ? "le16" : n <= 64 ? "le64" : n <= 256 ? "le256" : "big"));
  if (n > 3 && (reach1.size() < n - 1 || reach2.size() < n - 1)) r.note("BROKEN: probe panel too weak for zone " + z.id + ": reached " + std::to_string(reach1.size()) + "/" + std::to_string(reach2.size()) + " hint values of " + std::to_string(n));
  std::vector<size_t> ext1, ext2;
  for (size_t h = 0; h <= n + 1; ++h) { ext1.push_back(h); ext2.push_back(h); }
  long long states = 0;
  // quick tier, big tables: per state the probes of the intervals within +-3 of the forced index plus
  // a fixed spread of ~40 probes over the whole table and all global probes (complete panel in thorough
  // tier, for tables of at most 64 entries, and for every 25th zone)
  const bool windowed = !g_thorough && n > 64 && (std::hash<std::string>()(z.id) % 25) != 0;
  const size_t spread = P.size() / 40 + 1;
  if (windowed) r.cls("C14:hints:windowed-panel"); else r.cls("C14:hints:complete-panel");
  auto sweep = [&](size_t h1, size_t h2) {
    ++states;
    for (size_t k = 0; k < P.size(); ++k) {
      if (windowed && P[k].iv >= 0 && (k % spread) != 0) {
        // +-3 intervals around the hint the probe's own code path consults, +-1 around the other direction's hint
        const int kd = kind_of(P[k]);
        const bool uses_h2 = (kd == 1 || kd == 5);
        const long long dn = P[k].iv - static_cast<long long>(uses_h2 ? h2 : h1), dc = P[k].iv - static_cast<long long>(uses_h2 ? h1 : h2);
        if ((dn < -3 || dn > 3) && (dc < -1 || dc > 1)) continue;
      }
      ti->local_time_hint_.store(h1);
      ti->time_local_hint_.store(h2);
      const std::string got = ans(tz, P[k]);
      r.count("evaluations");
      if (got != expect[k]) {
        r.violation(std::string("C14:history-dependent:") + kind_name(kind_of(P[k])),
                    "zone " + z.id + " (table of " + std::to_string(n) + "): " + probe_str(P[k]) + " answers [" + got + "] when the hints are (" + std::to_string(h1) + "," + std::to_string(h2) + ") but [" + expect[k] + "] on a freshly loaded zone",
                    {"--zone", z.id, "--h1", std::to_string(h1), "--h2", std::to_string(h2)});
        return false;
      }
    }
    return true;
  };
  if (full_product_allowed && n <= 40) {
    r.cls("C14:hints:full-product");
    for (size_t h1 : ext1) for (size_t h2 : ext2) if (!sweep(h1, h2)) goto done;
  } else {
    r.cls("C14:hints:per-direction");
    for (size_t h1 : ext1) if (!sweep(h1, 0)) goto done;
    for (size_t h2 : ext2) if (!sweep(0, h2)) goto done;
    // a diagonal as well (both hints stale at once)
    for (size_t h : ext1) if ((h % 7) == 3 && !sweep(h, (h * 5 + 1) % (n + 1))) goto done;
  }
done:
  r.count("states", states);
  // history via real calls only (no forced state): query sequences q1;q2 over neighbouring intervals
  ti->local_time_hint_.store(0);
  ti->time_local_hint_.store(0);
  const size_t stride = P.size() > 400 ? P.size() / 200 : 1;
  for (size_t a = 0; a < P.size(); a += stride) for (int d = -14; d <= 14; ++d) {
    long long b = static_cast<long long>(a) + d;
    if (b < 0 || b >= static_cast<long long>(P.size())) continue;
    (void)ans(tz, P[a]);
    const std::string got = ans(tz, P[b]);
    r.count("evaluations");
    r.count("transitions", 2);
    if (got != expect[b]) {
      r.violation(std::string("C14:history-dependent-seq:") + kind_name(kind_of(P[b])), "zone " + z.id + ": after " + probe_str(P[a]) + ", " + probe_str(P[b]) + " answers [" + got + "] instead of [" + expect[b] + "]", {"--zone", z.id});
      break;
    }
  }
}

// ---------------------------------------------------------------------------
// cache part
static void cache_part(int shard, int nshards, int depth, hz::Result& r) {
  tzgen::GenStats st;
  tzgen::GenZone a, b;
  tzgen::build_zone({"EST5", "std"}, tzgen::K_ODD, 2, &a, &st);
  tzgen::build_zone({"CET-1CEST,M3.5.0,M10.5.0/3", "rule"}, tzgen::K_BETWEEN, 2, &b, &st);
  glue::Registry& reg = glue::registry();
  reg.zones.clear();
  reg.zones["A"] = a.bytes; reg.zones["A2"] = a.bytes; reg.zones["B"] = b.bytes;
  reg.zones["BAD"] = std::string("TZif2") + std::string(60, '\0');
  reg.zones["file:B"] = a.bytes;  // a DIFFERENT zone than "B" under a name that only differs by the file: prefix
  const std::vector<std::string> alpha = {"A", "A2", "B", "X", "Fixed/UTC+01:00:00", "UTC", "BAD", "Fixed/UTC+25:00:00", "file:B", "Fixed/UTC+00:60:00"};
  const int na = static_cast<int>(alpha.size());
  // expected panels per name, from a first load in a fresh namespace
  const long long panel_t[] = {-1900000000LL, 0, 1193533200LL, 1206838800LL, 4102444800LL};
  std::map<std::string, std::string> fresh_panel;
  std::map<std::string, bool> fresh_ok;
  for (auto& n : alpha) {
    cctz::time_zone::Impl::ClearTimeZoneMapTestOnly();
    cctz::time_zone tz;
    fresh_ok[n] = cctz::load_time_zone(n, &tz);
    std::string s = "name=" + tz.name() + ";";
    for (long long t : panel_t) s += ans_tp(tz, t) + ";" + ans_cs(tz, tz.lookup(glue::tp_of(t)).cs) + ";";
    fresh_panel[n] = s;
  }
  std::set<std::string> states;
  long long seqno = 0;
  for (int len = 1; len <= depth; ++len) {
    long long total = 1;
    for (int i = 0; i < len; ++i) total *= na;
    for (long long v = 0; v < total; ++v) {
      if ((seqno++ % nshards) != shard) continue;
      std::vector<int> seq(len);
      long long x = v;
      for (int i = 0; i < len; ++i) { seq[i] = static_cast<int>(x % na); x /= na; }
      cctz::time_zone::Impl::ClearTimeZoneMapTestOnly();
      reg.calls.clear();
      std::map<std::string, std::pair<bool, cctz::time_zone>> first;  // the reference: name -> first result
      std::string desc;
      std::set<std::string> loaded;
      for (int i = 0; i < len; ++i) {
        const std::string& n = alpha[seq[i]];
        desc += (i ? "," : "") + n;
        cctz::time_zone tz;
        const bool ok = cctz::load_time_zone(n, &tz);
        r.count("transitions");
        r.count("evaluations");
        std::vector<std::string> ra = {"--seq", desc};
        auto it = first.find(n);
        if (it == first.end()) {
          first[n] = {ok, tz};
          if (ok != fresh_ok[n]) r.violation("C14:cache:first-result-depends-on-history", "sequence [" + desc + "]: first load of '" + n + "' returned " + std::to_string(ok) + " but " + std::to_string(fresh_ok[n]) + " in a fresh process state", ra);
        } else {
          if (ok != it->second.first || tz != it->second.second) r.violation("C14:cache:reload-differs", "sequence [" + desc + "]: reloading '" + n + "' returned a different result/identity than the first load", ra);
        }
        if (!ok && tz != cctz::utc_time_zone()) r.violation("C14:cache:failure-not-utc", "sequence [" + desc + "]: failed load of '" + n + "' did not leave UTC", ra);
        const bool no_data = (n == "UTC" || n == "Fixed/UTC+01:00:00" || n == "Fixed/UTC+00:60:00");
        const int calls = reg.calls.count(n) ? reg.calls[n] : 0;
        if (calls > (no_data ? 0 : 1)) r.violation("C14:cache:data-source-consulted-again", "sequence [" + desc + "]: data source consulted " + std::to_string(calls) + " time(s) for '" + n + "'", ra);
        loaded.insert(n);
        std::string key;
        for (auto& s : loaded) key += s + "|";
        states.insert(key);
      }
      // final panel on every loaded zone = panel of the same zone loaded first in a fresh namespace
      for (auto& kv : first) {
        std::string s = "name=" + kv.second.second.name() + ";";
        for (long long t : panel_t) s += ans_tp(kv.second.second, t) + ";" + ans_cs(kv.second.second, kv.second.second.lookup(glue::tp_of(t)).cs) + ";";
        r.count("evaluations");
        if (s != fresh_panel[kv.first]) r.violation("C14:cache:answers-depend-on-load-history", "sequence [" + desc + "]: zone '" + kv.first + "' answers differently than when loaded first", {"--seq", desc});
      }
      r.cls("C14:cache:len" + std::to_string(len));
    }
  }
  r.count("states", static_cast<long long>(states.size()));
  // one LONG history (the exhaustive part above cannot reach a bounded or evicting cache): N distinct failing names,
  // N distinct valid names and N out-of-range fixed-shaped names, each loaded once, then everything loaded again in
  // the same and in reverse order; nothing may consult the data source a second time and every reload must return
  // the first identity.
  if (shard == 0) {
    const int N = 2000;
    cctz::time_zone::Impl::ClearTimeZoneMapTestOnly();
    reg.calls.clear();
    std::vector<std::string> names;
    for (int i = 0; i < N; ++i) {
      names.push_back("Absent/" + std::to_string(i));
      names.push_back("Many/" + std::to_string(i));
      reg.zones["Many/" + std::to_string(i)] = (i % 50) ? a.bytes : b.bytes;
      char buf[40]; snprintf(buf, sizeof buf, "Fixed/UTC+%02d:%02d:%02d", 25 + i / 3600 % 70, i / 60 % 60, i % 60);
      names.push_back(buf);
    }
    std::vector<std::pair<bool, cctz::time_zone>> first(names.size());
    for (size_t i = 0; i < names.size(); ++i) { cctz::time_zone tz; const bool ok = cctz::load_time_zone(names[i], &tz); first[i] = {ok, tz}; r.count("transitions"); }
    for (int pass = 0; pass < 2; ++pass) {
      for (size_t k = 0; k < names.size(); ++k) {
        const size_t i = pass ? names.size() - 1 - k : k;
        cctz::time_zone tz;
        const bool ok = cctz::load_time_zone(names[i], &tz);
        r.count("transitions"); r.count("evaluations");
        const int calls = reg.calls.count(names[i]) ? reg.calls[names[i]] : 0;
        if (ok != first[i].first || tz != first[i].second || calls > 1) {
          r.violation("C14:cache:long-history", "after " + std::to_string(names.size()) + " distinct first loads, reloading '" + names[i] + "' returned " + (ok != first[i].first ? "a different status" : tz != first[i].second ? "a different identity" : "the same result") +
                      " and the data source was consulted " + std::to_string(calls) + " time(s) for it", {"--seq", "long"});
          pass = 2;
          break;
        }
      }
    }
    for (int i = 0; i < N; ++i) reg.zones.erase("Many/" + std::to_string(i));
    r.cls("C14:cache:long-history");
  }
}

// ---------------------------------------------------------------------------
// text part: format() / parse() keep no visible state of their own, so the answer to a call must be the one a
// process gives that makes this call FIRST.  Every ordered pair (and, thorough, triple) of calls over a small
// alphabet runs in a fresh child process; the last call's answer is compared with the fresh-process answer.
// The alphabet mixes short and long C-library runs, runs whose expansion exceeds FormatTM's 16x growth limit
// (their value is unspecified, but it must be the same every time), library-rendered specifiers, and parses.
struct TextCall { bool parse; const char* fmt; const char* in; };
static const TextCall kText[] = {
    {false, "%Y-%m-%d %H:%M:%S", ""}, {false, "%A is day %j of the year, in the month of %B, which is a rather long piece of text for strftime %c", ""},
    {false, "%72A", ""}, {false, "%40c", ""}, {false, "%Ez %Z %E*S %s", ""}, {false, "%64B|%64b", ""}, {false, "%a", ""}, {false, "%1000Y", ""},
    {false, "%E4Y %U %W %u %w %E15f", ""}, {false, "", ""},
    {true, "%Y-%m-%d %H:%M:%S", "2013-11-03 01:30:00"}, {true, "%A %B %d %Y %I:%M %p", "Sunday November 03 2013 01:30 PM"}, {true, "%Y %U %w %Ez", "2017 53 0 +01:30"},
    {true, "%s", "-1"}, {true, "%Y-%m-%d", "2016-02-30"}, {true, "%c", "Thu Jan  1 00:00:00 1970"}};
static const int kNText = static_cast<int>(sizeof(kText) / sizeof(kText[0]));

static std::string text_answer(const TextCall& c, const cctz::time_zone& tz) {
  if (!c.parse) return "F:" + cctz::format(c.fmt, glue::tp_of(1383456600LL), tz);
  cctz::time_point<cctz::seconds> tp;
  const bool ok = cctz::parse(c.fmt, c.in, tz, &tp);
  return ok ? "P:" + std::to_string(glue::unix_of(tp)) : "P:fail";
}

// runs the calls of `seq` in a fresh process (two zones: UTC and the first shipped DST zone) and returns the last answers
static std::string text_child(const std::vector<int>& seq, const std::string& nybytes) {
  int fds[2];
  if (pipe(fds) != 0) return "pipe-failed";
  fflush(nullptr);
  pid_t pid = fork();
  if (pid == 0) {
    close(fds[0]);
    cctz::time_zone ny;
    glue::load_bytes("hs/text/ny", nybytes, &ny);
    std::string out;
    for (size_t i = 0; i < seq.size(); ++i) {
      const std::string a = text_answer(kText[seq[i]], cctz::utc_time_zone()) + "|" + text_answer(kText[seq[i]], ny);
      if (i + 1 == seq.size()) out = a;
    }
    if (write(fds[1], out.data(), out.size()) < 0) {}
    _exit(0);
  }
  close(fds[1]);
  std::string out;
  char buf[4096];
  ssize_t n;
  while ((n = read(fds[0], buf, sizeof buf)) > 0) out.append(buf, n);
  close(fds[0]);
  int st = 0;
  waitpid(pid, &st, 0);
  if (!WIFEXITED(st) || WEXITSTATUS(st) != 0) out += "<child died>";
  return out;
}

static void text_part(int shard, int nshards, bool thorough, const std::string& nybytes, hz::Result& r) {
  std::vector<std::string> fresh(kNText);
  for (int i = 0; i < kNText; ++i) fresh[i] = text_child({i}, nybytes);
  long long idx = 0;
  const int depth = thorough ? 3 : 2;
  for (int len = 2; len <= depth; ++len) {
    long long total = 1;
    for (int i = 0; i < len; ++i) total *= kNText;
    for (long long v = 0; v < total; ++v) {
      if ((idx++ % nshards) != shard) continue;
      std::vector<int> seq(len);
      long long x = v;
      for (int i = 0; i < len; ++i) { seq[i] = static_cast<int>(x % kNText); x /= kNText; }
      const std::string got = text_child(seq, nybytes);
      r.count("evaluations");
      r.count("transitions", len);
      r.cls("C14:text:len" + std::to_string(len));
      if (got != fresh[seq.back()]) {
        std::string d;
        for (int k : seq) d += std::string(d.empty() ? "" : " ; ") + (kText[k].parse ? "parse(" : "format(") + hz::jstr(kText[k].fmt) + (kText[k].parse ? std::string(", ") + hz::jstr(kText[k].in) : std::string()) + ")";
        r.violation("C14:text:history-dependent", "after [" + d + "] the last call answers [" + got.substr(0, 200) + "] but [" + fresh[seq.back()].substr(0, 200) + "] as the first call of a process", {"--textseq", std::to_string(v), "--textlen", std::to_string(len)});
      }
    }
  }
}

int main(int argc, char** argv) {
  hz::Args a = hz::parse_args(argc, argv);
  g_thorough = a.thorough();
  glue::install_factory();
  hz::Result total;
  std::vector<ZoneIn> zs;
  std::string dir = a.repo + "/testdata/zoneinfo";
  for (auto& n : glue::shipped_zone_names(dir)) zs.push_back({n, glue::read_file(dir + "/" + n)});
  tzgen::GenStats st;
  // the quick family in both tiers: the thorough tier spends its budget on the COMPLETE probe panel in every state
  for (auto& g : tzgen::family(false, &st)) zs.push_back({g.id, g.bytes});
  if (a.has("--zone")) {
    for (auto& z : zs) if (z.id == a.get("--zone")) hint_part(z, true, total);
    return hz::finish(a, total);
  }
  const int depth = a.thorough() ? 5 : 4;  // 10-name alphabet: 11 110 (111 110) sequences
  if (a.has("--seq")) { cache_part(0, 1, depth, total); return hz::finish(a, total); }
  if (a.has("--textseq")) { text_part(0, 1, a.thorough(), glue::read_file(dir + "/America/New_York"), total); return hz::finish(a, total); }
  const int nshards = 128;
  hz::PoolOpts po; po.workers = a.workers;
  hz::run_shards(nshards, po, a.workdir, [&](const hz::ShardCtl& ctl, hz::Result& r) {
    for (size_t i = ctl.shard; i < zs.size(); i += nshards) {
      if (ctl.skipped(i)) continue;
      if (a.time_up()) { r.exhaustive = false; r.note("deadline before zone " + std::to_string(i)); break; }
      hz::begin_case(i, "hints " + zs[i].id);
      hint_part(zs[i], true, r);
    }
    hz::begin_case(1 << 20, "cache sequences");
    cache_part(ctl.shard, nshards, depth, r);
    hz::begin_case((1 << 20) + 1, "format/parse call sequences");
    text_part(ctl.shard, nshards, a.thorough(), glue::read_file(dir + "/America/New_York"), r);
  }, &total, [&](long long cid, const std::string&) -> std::vector<std::string> {
    if (cid >= 0 && cid < (long long)zs.size()) return {"--zone", zs[cid].id};
    return {};
  });
  total.counters["traces_validated_against_impl"] = total.counters["transitions"];
  total.sample("{\"zone\":\"America/New_York\",\"state\":\"(local_time_hint_=h1, time_local_hint_=h2) for every h in 0..n+1\",\"probe\":\"lookup(tp)/lookup(cs) at both ends and the middle of every table interval, inside every gap and overlap; next_transition/prev_transition on both sides of every entry; format/parse at every 4th entry\"}");
  total.sample("{\"cache_sequence\":[\"A\",\"X\",\"A2\",\"A\",\"X\"],\"oracle\":\"name -> first result; data source consulted at most once per name\"}");
  return hz::finish(a, total);
}
