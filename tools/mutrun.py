#!/usr/bin/env python3
"""Phase 1 of the syntactic mutation sweep: which mutants compile and pass the repository's own tests.
usage: mutrun.py <mutants.jsonl> <out.jsonl> <workers>    (scratch copies under /tmp/mut, removed at the end)"""
import json, os, subprocess, sys, shutil, threading, queue, time
muts = [json.loads(l) for l in open(sys.argv[1])]
outp = sys.argv[2]; W = int(sys.argv[3])
done = set()
if os.path.exists(outp):
    for l in open(outp):
        d = json.loads(l); done.add((d["file"], d["line"], d["mut"]))
q = queue.Queue()
for i, m in enumerate(muts):
    if (m["file"], m["line"], m["mut"]) not in done: q.put((i, m))
lock = threading.Lock()
def sh(cmd, cwd, timeout=600):
    try:
        r = subprocess.run(cmd, cwd=cwd, shell=True, stdout=subprocess.PIPE, stderr=subprocess.STDOUT, timeout=timeout)
        return r.returncode, r.stdout.decode(errors="replace")[-2000:]
    except subprocess.TimeoutExpired:
        return 124, "timeout"
def worker(k):
    d = "/tmp/mut/w%d" % k
    shutil.rmtree(d, ignore_errors=True)
    os.makedirs(d)
    sh("cd /repo && git archive HEAD | tar -x -C %s --exclude=testdata && ln -s /repo/testdata %s/testdata" % (d, d), "/")
    rc, o = sh("cmake -S . -B _build -G Ninja -DCMAKE_BUILD_TYPE=Release >/dev/null && cmake --build _build -j2 >/dev/null", d, 1200)
    if rc != 0:
        print("worker %d: base build failed: %s" % (k, o)); return
    while True:
        try: i, m = q.get_nowait()
        except queue.Empty: break
        p = os.path.join(d, m["file"])
        src = open(p).read()
        lines = src.split("\n")
        assert lines[m["line"] - 1] == m["orig"], (m, lines[m["line"] - 1])
        lines[m["line"] - 1] = m["mut"]
        open(p, "w").write("\n".join(lines))
        t0 = time.time()
        rc, o = sh("cmake --build _build -j2 2>&1 | tail -5", d, 900)
        built = (rc == 0 and "error" not in o.lower() and "FAILED" not in o)
        res = "stillborn"
        if built:
            rc, o = sh("ctest --test-dir _build -j3 --timeout 300 2>&1 | tail -8", d, 1000)
            res = "survived" if ("100% tests passed" in o) else "killed"
        open(p, "w").write(src)
        m2 = dict(m); m2["result"] = res; m2["secs"] = round(time.time() - t0, 1)
        with lock:
            with open(outp, "a") as f: f.write(json.dumps(m2) + "\n")
    sh("cmake --build _build -j2 >/dev/null 2>&1", d, 900)
    shutil.rmtree(d, ignore_errors=True)
ts = [threading.Thread(target=worker, args=(k,)) for k in range(W)]
for t in ts: t.start()
for t in ts: t.join()
