#!/usr/bin/env python3
"""Syntactic mutant generator used to look for alphabet holes (not a registered check).
Emits one JSON line per mutant: file, line number, original line, mutated line, operator."""
import re, sys, json, os
REPO = sys.argv[1] if len(sys.argv) > 1 else "/repo"
FILES = ["src/time_zone_info.cc", "src/time_zone_posix.cc", "src/time_zone_fixed.cc", "src/time_zone_format.cc",
         "src/time_zone_lookup.cc", "src/time_zone_impl.cc", "src/time_zone_if.cc", "src/zone_info_source.cc",
         "include/cctz/civil_time_detail.h", "include/cctz/time_zone.h"]
REL = [(" < ", " <= "), (" <= ", " < "), (" > ", " >= "), (" >= ", " > ")]
EQ = [(" == ", " != "), (" != ", " == ")]
LOGIC = [(" && ", " || "), (" || ", " && ")]
ARITH = [(" + ", " - "), (" - ", " + ")]
def strip_strings(l):
    return re.sub(r'"(\\.|[^"\\])*"', lambda m: '"' + "_" * (len(m.group(0)) - 2) + '"', l)
out = []
for f in FILES:
    p = os.path.join(REPO, f)
    if not os.path.exists(p): continue
    lines = open(p).read().split("\n")
    in_block = False
    for i, l in enumerate(lines):
        s = l.strip()
        if in_block:
            if "*/" in s: in_block = False
            continue
        if s.startswith("/*"):
            if "*/" not in s: in_block = True
            continue
        if not s or s.startswith("//") or s.startswith("#") or s.startswith("static_assert") or "assert(" in s: continue
        code = l.split("//")[0]
        masked = strip_strings(code)
        if "template" in masked or "typename" in masked or "operator" in masked: continue
        def emit(new, op):
            out.append({"file": f, "line": i + 1, "orig": l, "mut": new + l[len(code):], "op": op})
        for ops, name in ((REL, "rel"), (EQ, "eq"), (LOGIC, "logic"), (ARITH, "arith")):
            for a, b in ops:
                start = 0
                while True:
                    k = masked.find(a, start)
                    if k < 0: break
                    start = k + len(a)
                    if name == "rel" and ("<<" in masked[max(0,k-1):k+3] or ">>" in masked[max(0,k-1):k+3] or "->" in masked[max(0,k-1):k+3]): continue
                    emit(code[:k] + b + code[k + len(a):], name + ":" + a.strip() + "->" + b.strip())
        # integer literals: n -> n+1, n-1 (skip 0/1 used as bool-ish? keep), skip array sizes and shifts handled by compile errors
        for m in re.finditer(r'(?<![\w.])(\d+)(?![\w.])', masked):
            v = int(m.group(1))
            if v > 100000: continue
            for nv in (v + 1, v - 1):
                if nv < 0: continue
                emit(code[:m.start(1)] + str(nv) + code[m.end(1):], "const:%d->%d" % (v, nv))
for m in out: print(json.dumps(m))
sys.stderr.write("%d mutants\n" % len(out))
