#!/usr/bin/env python3
"""Phase 2 of the syntactic mutation sweep: run the relevant quick checks on the mutants that survived the
repository's tests.  usage: mutcheck.py <phase1.jsonl> <out.jsonl> <workers> [op-class ...]"""
import json, os, subprocess, sys, shutil, threading, queue, time, re
inp, outp, W = sys.argv[1], sys.argv[2], int(sys.argv[3])
classes = sys.argv[4:] or ["rel", "arith", "logic", "eq", "const"]
def checks_for(m):
    f, ln, o = m["file"], m["line"], m["orig"]
    if f.endswith("time_zone_info.cc"):
        c = ["C01", "C11", "C03", "C10", "C02", "C06"]
        if ln < 400 and ln > 140: c += ["C12"]            # Header / DataLength / rule extension
        if 472 <= ln <= 575: return []                      # Android / Fuchsia sources: their files do not exist on this platform
        if 400 <= ln < 472: return ["C19", "C20"]           # FileZoneInfoSource
        if 600 <= ln <= 850: c += ["C19", "C12"]            # ResetToBuiltinUTC / Load
        if ln >= 850: c += ["C14"]                           # BreakTime / MakeTime / transitions (hints)
        if 600 <= ln <= 634: c = ["C15"] + c
        return c
    if f.endswith("time_zone_posix.cc"): return ["C16", "C01"]
    if f.endswith("time_zone_fixed.cc"): return ["C15", "C13"]
    if f.endswith("time_zone_format.cc"): return ["C09", "C07", "C08", "C18"]
    if f.endswith("time_zone_lookup.cc"): return ["C19", "C15", "C14", "C20"]
    if f.endswith("time_zone_impl.cc"): return ["C14", "C19", "C20", "C13"]
    if f.endswith("time_zone_if.cc") or f.endswith("zone_info_source.cc"): return ["C19", "C20"]
    if f.endswith("civil_time_detail.h"): return ["C17", "C04", "C05"]
    if f.endswith("time_zone.h"): return ["C18", "C06", "C07"]
    return []
done = set()
if os.path.exists(outp):
    for l in open(outp):
        d = json.loads(l); done.add((d["file"], d["line"], d["mut"]))
todo = []
for l in open(inp):
    m = json.loads(l)
    if m["result"] != "survived": continue
    if m["op"].split(":")[0] not in classes: continue
    if os.environ.get("MUT_FILES") and not any(m["file"].endswith(x) for x in os.environ["MUT_FILES"].split(",")): continue
    if os.environ.get("MUT_EVERY") and (m["line"] * 31 + len(m["mut"])) % int(os.environ["MUT_EVERY"]) != 0: continue
    if os.environ.get("MUT_LINES"):
        lo, hi = map(int, os.environ["MUT_LINES"].split("-"))
        if not (lo <= m["line"] <= hi): continue
    if (m["file"], m["line"], m["mut"]) in done: continue
    todo.append(m)
todo.sort(key=lambda m: (classes.index(m["op"].split(":")[0]), m["file"], m["line"]))
q = queue.Queue()
for m in todo: q.put(m)
print("%d mutants to check" % len(todo), flush=True)
lock = threading.Lock()
def worker(k):
    d = "/tmp/mut/p2_%d" % k
    shutil.rmtree(d, ignore_errors=True); os.makedirs(d)
    subprocess.run("cd /repo && git archive HEAD | tar -x -C %s --exclude=testdata && ln -s /repo/testdata %s/testdata" % (d, d), shell=True, check=True)
    env = dict(os.environ, VERIF_REPO=d, VERIF_ALT="1")
    while True:
        try: m = q.get_nowait()
        except queue.Empty: break
        p = os.path.join(d, m["file"])
        src = open(p).read(); lines = src.split("\n")
        assert lines[m["line"] - 1] == m["orig"]
        lines[m["line"] - 1] = m["mut"]
        open(p, "w").write("\n".join(lines))
        t0 = time.time(); det = None; sig = ""; ran = []; broken = []
        for c in checks_for(m):
            if c in os.environ.get("MUT_SKIP", "").split(","): continue
            try:
                r = subprocess.run(["/verif/bin/check", c, "quick"], env=env, stdout=subprocess.PIPE, stderr=subprocess.STDOUT, timeout=1500)
                rc, out = r.returncode, r.stdout.decode(errors="replace")
            except subprocess.TimeoutExpired:
                rc, out = 124, "timeout"
            ran.append(c)
            if rc == 1:
                det = c
                mm = re.search(r"sig: (.*)", out); sig = mm.group(1) if mm else ""
                break
            if rc != 0: broken.append("%s:%d:%s" % (c, rc, out[-300:].replace("\n", " | ")))
        open(p, "w").write(src)
        m2 = dict(m); m2.update({"detected_by": det, "sig": sig, "ran": ran, "broken": broken, "secs2": round(time.time() - t0, 1)})
        with lock:
            with open(outp, "a") as f: f.write(json.dumps(m2) + "\n")
    shutil.rmtree(d, ignore_errors=True)
ts = [threading.Thread(target=worker, args=(k,)) for k in range(W)]
for t in ts: t.start()
for t in ts: t.join()
