"""Table of build variants, harnesses and per-property checks (used by bin/check)."""
import json
import os

VERIF = os.path.dirname(os.path.dirname(os.path.abspath(__file__)))

COMMON = ["-std=c++17", "-Wall", "-Wno-unused-function", "-Wno-sign-compare", "-Wno-unused-variable"]
# AddressSanitizer builds also annotate std::vector storage, so that a read between size() and capacity()
# (e.g. transitions_[timecnt]) is reported instead of silently returning stale bytes
ASAN = ["-fsanitize=address,undefined", "-D_GLIBCXX_SANITIZE_VECTOR"]
VARIANTS = {
    # sanitizer build: the sanitizer is part of the oracle (abort on first report)
    "asan": {"cxx": "g++", "flags": COMMON + ["-O1", "-g", "-fno-omit-frame-pointer"] + ASAN + ["-fno-sanitize-recover=all"]},
    "plain": {"cxx": "g++", "flags": COMMON + ["-O2"]},
    # hooked build for the schedule explorer: std::mutex / std::atomic in cctz TUs announce themselves to the scheduler
    "sched": {"cxx": "g++", "flags": COMMON + ["-O1", "-g", "-fno-omit-frame-pointer"] + ASAN + ["-fno-sanitize-recover=all",
                                               "-DCCTZ_VERIF_SCHED", "-I" + os.path.join(VERIF, "src", "sched"), "-include", os.path.join(VERIF, "src", "sched", "hook.h")],
              "deps": [os.path.join(VERIF, "src", "sched", "hook.h"), os.path.join(VERIF, "src", "sched", "vp.h")]},
    "tsan": {"cxx": "g++", "flags": COMMON + ["-O1", "-g", "-fsanitize=thread"]},
    # hooked build under ThreadSanitizer: the explorer's schedules with the race detector watching
    "sched_tsan": {"cxx": "g++", "flags": COMMON + ["-O1", "-g", "-fsanitize=thread",
                                                    "-DCCTZ_VERIF_SCHED", "-I" + os.path.join(VERIF, "src", "sched"), "-include", os.path.join(VERIF, "src", "sched", "hook.h")],
                   "deps": [os.path.join(VERIF, "src", "sched", "hook.h"), os.path.join(VERIF, "src", "sched", "vp.h")]},
    # C12: UBSan in recover mode (reports are captured per input by a hook), ASan fatal
    "asan_rec": {"cxx": "g++", "flags": COMMON + ["-O1", "-g", "-fno-omit-frame-pointer"] + ASAN + ["-fsanitize-recover=undefined"]},
    # C12 determinism: two uninstrumented clang builds that differ only in how automatic variables are pre-filled
    "cl_pattern": {"cxx": "clang++", "flags": COMMON + ["-O1", "-DNDEBUG", "-ftrivial-auto-var-init=pattern", "-Wno-unknown-warning-option"]},
    "cl_zero": {"cxx": "clang++", "flags": COMMON + ["-O1", "-DNDEBUG", "-ftrivial-auto-var-init=zero", "-enable-trivial-auto-var-init-zero-knowing-it-will-be-removed-from-clang", "-Wno-unknown-warning-option"]},
}

RUN_ENV = {
    "ASAN_OPTIONS": "detect_leaks=0:abort_on_error=0:allocator_may_return_null=1:max_allocation_size_mb=4096",
    "UBSAN_OPTIONS": "print_stacktrace=1:halt_on_error=1",
    "TZ": "UTC", "LC_ALL": "C", "LANG": "C",
}

HARNESSES = {
    "zone_conf": {"srcs": ["src/harness/zone_conf.cc"], "variant": "asan"},
    "zone_conf_fast": {"srcs": ["src/harness/zone_conf.cc"], "variant": "plain"},
}

HARNESSES["sched_explore"] = {"srcs": ["src/harness/sched_explore.cc", "src/sched/vsched.cc"], "variant": "sched", "strip_hook": True,
                              "flags": ["-I" + os.path.join(VERIF, "src", "sched")]}
HARNESSES["hidden_state"] = {"srcs": ["src/harness/hidden_state.cc"], "variant": "asan", "flags": ["-fno-access-control"]}
HARNESSES["fault_enum"] = {"srcs": ["src/harness/fault_enum.cc"], "variant": "asan_rec"}
HARNESSES["fault_enum_pat"] = {"srcs": ["src/harness/fault_enum.cc"], "variant": "cl_pattern"}
HARNESSES["fault_enum_zero"] = {"srcs": ["src/harness/fault_enum.cc"], "variant": "cl_zero"}
HARNESSES["env_enum"] = {"srcs": ["src/harness/env_enum.cc"], "variant": "asan"}
HARNESSES["subsecond"] = {"srcs": ["src/harness/subsecond.cc"], "variant": "asan"}
HARNESSES["text_conf"] = {"srcs": ["src/harness/text_conf.cc"], "variant": "asan"}
HARNESSES["tsan_pass"] = {"srcs": ["src/harness/tsan_pass.cc"], "variant": "tsan", "flags": ["-I" + os.path.join(VERIF, "src", "sched")]}
HARNESSES["sched_explore_tsan"] = {"srcs": ["src/harness/sched_explore.cc"], "srcs_noinstr": ["src/sched/vsched.cc"], "variant": "sched_tsan", "strip_hook": True,
                                   "flags": ["-I" + os.path.join(VERIF, "src", "sched")]}
HARNESSES["fixed_posix"] = {"srcs": ["src/harness/fixed_posix.cc"], "variant": "asan"}
HARNESSES["civil_conf"] = {"srcs": ["src/harness/civil_conf.cc"], "variant": "asan"}

SETUP_VARIANTS = ["asan", "plain", "sched", "asan_rec", "cl_pattern", "cl_zero", "tsan", "sched_tsan"]
SETUP_HARNESSES = ["zone_conf", "civil_conf", "fixed_posix", "sched_explore", "sched_explore_tsan", "hidden_state", "fault_enum", "fault_enum_pat", "fault_enum_zero", "env_enum", "subsecond", "text_conf", "tsan_pass"]

E1_LEVEL_NOTE = ("Trusted base: the reference model in /verif/src/common (128-bit calendar, RFC 9636 TZif reader, "
                 "POSIX TZ evaluator - written from the specifications, self-checked by a brute-force day walk), "
                 "g++ 12 / glibc, the sanitizer runtime. Coverage is the stated finite domain, enumerated completely; "
                 "no claim outside it beyond the piecewise-affine argument of DESIGN.md 2.4.")


def zone_steps(tier):
    if tier == "thorough":
        return [{"harness": "zone_conf_fast", "args": []}]
    return [{"harness": "zone_conf", "args": []}]


def vac_min(counter, minimum, classes_min=2):
    def f(res, tier):
        if res["counters"].get(counter, 0) < minimum:
            return "%s = %s < %s" % (counter, res["counters"].get(counter, 0), minimum)
        if len(res["classes"]) < classes_min:
            return "only %d behaviour classes hit" % len(res["classes"])
        return None
    return f


def mk_zone(pid, title, rule, design_ref, text, need_classes):
    def vac(res, tier):
        if res["counters"].get("zones", 0) < 600:
            return "fewer than 600 zones processed (%s)" % res["counters"].get("zones", 0)
        missing = [c for c in need_classes if not any(k.startswith(c) for k in res["classes"])]
        if missing:
            return "behaviour classes never hit: " + ", ".join(missing)
        return None
    return {
        "title": title, "steps": zone_steps, "level": "model_checking", "engine": "E1",
        "technique": "bounded-exhaustive conformance checking of the implementation against an executable reference model (complete enumeration of a finite breakpoint-derived domain; no sampling)",
        "rule": rule, "design_ref": design_ref, "text": text, "level_note": E1_LEVEL_NOTE,
        "assumptions": ["reference model (ref_zone.h) is the specification oracle", "zones are well-formed (zic-producible); generator filters decided by the reference only",
                        "between consecutive breakpoints both model and implementation are t -> t + const"],
        "vacuity": vac, "budget": {"quick": 240, "thorough": 3000},
    }


ZONE_RULE = ("domain = (598 shipped TZif files + synthetic family of tzgen.h) x probes derived from the reference timeline's breakpoints "
             "(every file transition, rule transitions of years last-1..last+402 and of the 400-year images n in {1,2,3,23,1e3,1e6,nmax-1,nmax}, "
             "Jan 1 of those years, +-2^31, +-2^59, 0, min, max), each +-k seconds (k=2 quick, 4 thorough) and +-|offset change| +-{0,1}; "
             "behaviour class = region of the timeline x kind as classified by the reference; distinct_nontrivial = number of such classes hit")

CHECKS = {
    "C01": mk_zone("C01", "instant -> civil follows the TZif data", ZONE_RULE, "DESIGN.md 3/C01",
                   "Every probe instant of every corpus zone is looked up in the real library and compared field by field (offset, is_dst, abbreviation, civil second) with an independent 128-bit reading of the same bytes that neither extends nor folds by 400 years; every corpus zone must load.",
                   ["C01:before-first", "C01:file", "C01:rule-window", "C01:rule-shift1", "C01:rule-shiftN", "C01:seam-year"]),
    "C02": mk_zone("C02", "civil -> instant kinds and pre/trans/post", ZONE_RULE + "; civil probes = images of the instants under both neighbouring offsets plus civil_second::min/max and the first/last convertible second per offset",
                   "DESIGN.md 3/C02",
                   "For every civil probe the set of instants displaying it is computed on the unbounded reference timeline; kind, pre, trans, post (clamped) must match.",
                   ["C02:unique", "C02:skipped", "C02:repeated"]),
    "C03": mk_zone("C03", "round trip", ZONE_RULE, "DESIGN.md 3/C03",
                   "Composition law evaluated on the real library for every probe instant (forward) and every civil probe (reverse); no reference needed.",
                   ["C03:fwd:unique", "C03:fwd:repeated", "C03:rev:unique", "C03:rev:repeated"]),
    "C06": mk_zone("C06", "convert(civil) is monotone", ZONE_RULE + "; adjacent pairs of the sorted civil probe list decide all pairs (transitivity)", "DESIGN.md 3/C06",
                   "convert() evaluated on the sorted civil probe list of every zone; adjacent pairs must be ordered and every value must equal the reference (trans if skipped else pre, clamped).",
                   ["C06:unique", "C06:skipped", "C06:repeated"]),
    "C10": mk_zone("C10", "totality and saturation at the ends", "boundary domain of DESIGN.md C10: {min,max,+-2^59,+-2^31,0, 400-year multiples near the limits, first/last transitions} +- {0..3, 86400j+-1} plus the outermost two days at stride 3599 s (quick) / 7 s (thorough), civil images under every offset of the zone, civil_second::min/max +- 0..3; all six conversions called under ASan+UBSan",
                   "DESIGN.md 3/C10",
                   "Sanitizer-instrumented sweep of the boundary domain in every zone; saturated answers must be exactly min()/max() where the 128-bit reference places the instant outside the range and exact otherwise.",
                   ["C10:unique", "C10:last-representable", "C10:one-past-last", "C01:rule-shiftN"]),
    "C11": mk_zone("C11", "next/prev_transition enumerate the real changes", ZONE_RULE + "; plus full forward chain from min() and backward chain from max()", "DESIGN.md 3/C11",
                   "Forward and backward chains are walked on the real library and compared element by element with the reference's list of real changes; point queries at every probe and at each chain element +-1. In the hand-made files whose first entry at -2^59 changes the type (documented by the library as a sentinel, never written by zic) that one change may be reported or not, but identically by both chains and all point queries.",
                   ["C11:chain-extended", "C11:chain-file-only", "C11:next:just-before", "C11:query-at-change", "C11:prev:has", "C11:prev:none", "C11:bigbang-entry-changes-type"]),
}

def mk_civil(pid, title, rule, text, need):
    def vac(res, tier):
        missing = [c for c in need if not any(k.startswith(c) for k in res["classes"])]
        if missing:
            return "behaviour classes never hit: " + ", ".join(missing)
        if res["counters"].get("evaluations", 0) < 1000000:
            return "too few evaluations"
        return None
    return {
        "title": title, "steps": [{"harness": "civil_conf", "args": []}], "level": "model_checking", "engine": "E1",
        "technique": "bounded-exhaustive conformance checking against a 128-bit reference calendar (complete enumeration of the 146097-day cycle and of boundary-value products; UBSan as part of the oracle)",
        "rule": rule, "design_ref": "DESIGN.md 3/" + pid, "text": text,
        "level_note": "Trusted base: ref_civil.h (count-the-leap-days calendar in __int128, self-checked by a day-by-day walk over two Gregorian cycles), g++ 12, UBSan/ASan runtime. Exhaustive over the stated finite domains; other int64 tuples are covered only by the periodicity argument (400-year cycle) and the boundary alphabets.",
        "assumptions": ["int_fast64_t is 64 bits", "the reference calendar is correct (self-check at start of every run)"],
        "vacuity": vac, "budget": {"quick": 240, "thorough": 3000},
    }


CHECKS["C04"] = mk_civil("C04", "civil-time construction normalizes exactly",
    "(a) every day of 2000-2399 x 3 times of day x complete product of per-field carries {0,+1,-1} on seconds/minutes/hours/months and month-shifts {0,1,-1,-12,12} of the day field (so the day field lands on 0, +-28..31, +-365/366 +- 1) (mathematical value unchanged); (b) a reduced base set (month ends of the century/4-year boundaries) x carries {0,+-1,+-2,+-1000003[,+-2^31,+-97]}^4 x month shifts {0,+-1,+-12,13,-14,-48,4800}; (c) complete product of the 64-bit boundary alphabet (22 values quick / 29 thorough, incl. -365, -366, +-146097)^6 restricted to the stated representability bound; class = which generator produced the tuple; all six alignments and all cross-alignment conversions on a fixed subset",
    "Every tuple is constructed in the real library (UBSan+ASan build) and compared with the 128-bit reference value; accessor ranges asserted; alignments and cross-alignment conversions compared with field truncation.",
    ["C04:cycle-small", "C04:cycle-big", "C04:boundary-product", "C04:dense-one-field", "C04:dense-field-pair"])
CHECKS["C05"] = mk_civil("C05", "civil arithmetic and difference are exact inverses",
    "every aligned value of the 146097-day cycle (day: all days; month: 4800; year: 400; hour/minute/second: every day x time of day) at eras {0, max, min [, +-1, -6, +-1e3]} x n in {0, +-(1,2,23..32,59..61,365,366,1460,1461,36524,36525,146096..146098,2*146097,2^31,2^62), INT64_MIN, INT64_MIN+1, INT64_MAX}, and for hour/minute/second alignments (era 0) every whole number of days from 364 to 397 in both directions; plus every day of the 3 first/last representable years; plus boundary-year x boundary-month/day difference product; unrepresentable results skipped and counted",
    "a+n, n+a, a+=n, a-n, a-=n, (a+n)-a, a-(a+n), b+(a-b), ++/-- (pre and post) and all six relational operators compared with the linear index of the reference calendar, for each of the six alignments.",
    ["C05:add:day:era0", "C05:add:second:era-max", "C05:add:month:era-min", "C05:sub:year", "C05:add:day:extreme-year", "C05:diff-limit", "C05:cross-compare"])
CHECKS["C17"] = mk_civil("C17", "weekday / yearday / next / prev weekday",
    "all 146097 days of 2000-2399 x {get_weekday, get_yearday} and x 7 weekdays x {next_weekday, prev_weekday}, replicated at eras {0, -6, max, min [, -5, +1, +-1e3, +-1e9]} plus every day of years {INT64_MIN, INT64_MIN+1, INT64_MAX-1, INT64_MAX, -400..400 selected}",
    "Exhaustive over the Gregorian cycle: weekday from the 128-bit day number anchored at 1970-01-01 = Thursday (successor law checked along the enumeration), year-day by subtraction, next/prev = unique day within 1..7 days.",
    ["C17:era0:leap", "C17:era0:common", "C17:era-max", "C17:era-min", "C17:special-years"])


def mk_simple(pid, harness, title, rule, text, need, level_note, engine="E1", min_eval=10000, technique=None):
    def vac(res, tier):
        missing = [c for c in need if not any(k.startswith(c) for k in res["classes"])]
        if missing:
            return "behaviour classes never hit: " + ", ".join(missing)
        if res["counters"].get("evaluations", 0) < min_eval:
            return "too few evaluations"
        return None
    return {
        "title": title, "steps": [{"harness": harness, "args": []}], "level": "model_checking", "engine": engine,
        "technique": technique or "bounded-exhaustive conformance checking against an executable reference model (complete enumeration of the stated finite domain)",
        "rule": rule, "design_ref": "DESIGN.md 3/" + pid, "text": text, "level_note": level_note,
        "assumptions": [], "vacuity": vac, "budget": {"quick": 240, "thorough": 3000},
    }


CHECKS["C15"] = mk_simple("C15", "fixed_posix", "fixed-offset zones and names",
    "every integer offset in [-90000, 90000] (180001 values, exhaustive), plus 64-bit offsets far beyond 24 h (+-2^31, +-2^32 +- small values, k*2^32 + {-86400..86400 sample} for k <= 40, INT64 limits) x {ToName, ToAbbr, FromName(ToName), fixed_time_zone, load_time_zone(name) with a counting data source} x instants {min,0,max} (all 9 of {min,-2^59,-2^31,-1,0,1,2^31,2^59,max} for |o|<=61 or >=86390; everywhere in thorough); names: canonical names of 25 offsets x every single edit (delete/replace/insert) over 13 symbols incl. NUL and 0xff, all pairs of digit-position edits over {0,5,6,9,NUL,:}, and 30 literals; class = sign/precision class of the offset, or edit kind x accept/reject",
    "Closed-form reference for name/abbreviation/offset and lookup result; every name string is decided by the reference recogniser; loads of fixed names must not touch the data source.",
    ["C15:neg-with-seconds", "C15:pos-with-minutes", "C15:zero", "C15:beyond-24h", "C15:name:replace:reject", "C15:name:replace:accept", "C15:name:literal"],
    "Trusted base: ref_fixed.h (30 lines, written from the statement), ref_civil.h.", min_eval=1000000)
CHECKS["C16"] = mk_simple("C16", "fixed_posix", "POSIX TZ strings",
    "(a) grammar sentences: every value of every part alphabet (abbreviation forms, offsets = sign x hours x minutes x seconds, dst abbreviation x dst offset, date forms incl. out-of-range and truncated, time forms incl. +-167/168) with the other parts at two settings, plus structural variants (dropped rule, dropped field, extra field, trailing bytes); thorough adds pairwise products; (b) every single edit (delete / replace / insert over 14 symbols, NUL, 0xff) of 200 (600) accepted sentences; (c) ALL strings of length <= 5 (7) over the 14-symbol alphabet; each string parsed twice into result structs pre-filled with 0x00 and 0xA5; (d) end-to-end as the footer of a generated TZif file; class = generator x accept-std/accept-dst/reject as decided by the reference",
    "Accept/reject must agree with the reference recogniser; on acceptance every meaningful field must equal the reference and be independent of the pre-fill; end to end an invalid footer must make the load fail (leaving UTC) and a valid well-formed one must load and follow the rule.",
    ["C16:sentence:accept-dst", "C16:sentence:accept-std", "C16:sentence:reject", "C16:replace:reject", "C16:delete:accept-dst", "C16:allstrings:accept-std", "C16:e2e:dst", "C16:e2e:reject"],
    "Trusted base: ref_posix.h recursive-descent recogniser written from the grammar in the property statement / time_zone_posix.h.", min_eval=500000)


E3_NOTE = ("Trusted base: the scheduler in src/sched (serialises real pthreads; scheduling points = every std::mutex lock/unlock and std::atomic load/store "
           "spelled in cctz's sources, the C++ static-initialisation guards, the harness's factory entry/exit and first Read()). Interleavings are sequentially "
           "consistent at that granularity: accesses between two points execute atomically, which is exact only for data-race-free code - the separate free-running "
           "ThreadSanitizer pass of the same thread bodies looks for unsynchronised accesses. Bounds: preemption bound per harness as listed in the evidence; "
           "coarse harnesses (4 threads) explore ALL interleavings at lock/factory/thread-end granularity with trace-state pruning.")


def mk_sched(pid, title, text, need):
    def vac(res, tier):
        missing = [c for c in need if not any(k.startswith(c) for k in res["classes"])]
        if missing:
            return "behaviour classes never hit: " + ", ".join(missing)
        if res["counters"].get("evaluations", 0) < 1000:
            return "too few schedules explored"
        return None
    return {
        "title": title, "steps": [{"harness": "sched_explore", "args": [], "share": 0.5}] +
                                 ([{"harness": "sched_explore_tsan", "args": ["--race-pass"], "share": 0.3, "env": {"TSAN_OPTIONS": "halt_on_error=1:exitcode=66:report_signal_unsafe=0"}}] if pid == "C13" else []) +
                                 [{"harness": "tsan_pass", "args": [], "share": 0.2, "env": {"TSAN_OPTIONS": "halt_on_error=1:exitcode=66:report_signal_unsafe=0"}}],
        "level": "model_checking", "engine": "E3",
        "technique": "stateless model checking of the implementation: exhaustive preemption-bounded schedule exploration under a controlled scheduler (iterative context bounding), plus exhaustive trace-state-pruned exploration at critical-section granularity for 4 threads",
        "rule": "harnesses H1-H9 (2-3 threads, 1-4 operations each: racing first loads of one name, crossing orders on two names, failing loads, fixed/UTC names, names differing by a file: prefix, local_time_zone() with $TZ naming a served zone racing itself and a direct load, loads mixed with lookups on the shared zone, lookups on a pre-loaded zone): every schedule with at most 3 (quick) / 5 (thorough) preemptions (H7: 2 / 3), points at every lock, unlock, atomic load/store, static guard, factory entry/exit and first Read; harnesses H8-* (4 threads, one load each): all interleavings at lock/factory/thread-end granularity, pruned by trace-equivalence state hash; cold-start variants of H1/H4/H5/H5b/H5c: one fresh process per execution so that the function-local statics (UTC impl, both mutexes) are initialised under the explored schedule, bound 2 (3) for H1/H5/H5c and 1 (2) for the three-thread H4/H5b; every complete execution is judged; distinct_nontrivial = number of (harness, preemption count) classes and distinct observation vectors seen",
        "design_ref": "DESIGN.md 3/" + pid, "text": text, "level_note": E3_NOTE,
        "assumptions": ["sequential consistency at scheduling-point granularity (relaxed atomics: two independent words, see DESIGN.md C13 memory-order scope)", "warm harnesses start every execution from an emptied name cache (ClearTimeZoneMapTestOnly) with initialised function-local statics; cold harnesses run every execution in a fresh process"],
        "vacuity": vac, "budget": {"quick": 300, "thorough": 3000},
    }


CHECKS["C13"] = mk_sched("C13", "concurrent loading and use is schedule-independent",
    "Every explored schedule is a real execution of the library: no deadlock, all time_zone values for one name compare equal (also with a later sequential re-load), distinct names never share an identity, and every return value / lookup / transition / format / parse result equals the single-threaded run of the same operations.",
    ["C13:H1:preemptions=1", "C13:H1:preemptions=3", "C13:H3", "C13:H6", "C13:H8-AAAA:coarse", "C13:H1:cold", "C13:H5:cold"])
CHECKS["C20"] = mk_sched("C20", "custom factory: once per name, serially, on the caller's thread",
    "Same exploration as C13; the verdict is the predicate over the factory log of each execution (thread id = calling thread; at most one invocation per name including later repeats; no two invocations overlapping - the factory yields while inside; never for UTC / fixed-offset names).",
    ["C13:H1:preemptions=1", "C13:H2", "C13:H4", "C13:H5", "C13:H8-AABX:coarse"])

CHECKS["C14"] = mk_simple("C14", "hidden_state", "results never depend on call history",
    "hint part: for every corpus zone (598 shipped + synthetic family) the hidden state (local_time_hint_, time_local_hint_) is read from and forced into the live object; reachable values are established by applying every probe as a real API call from the fresh state; then for EVERY index value 0..n+1 per direction (full product of both for tables of at most 40 entries, plus a diagonal) the whole probe panel (lookup(tp)/lookup(cs) at both ends and middle of every table interval, inside every gap and overlap; next_transition and prev_transition on both sides of every table entry; format and parse at every 4th entry; far-future and extreme arguments) is evaluated and compared with the fresh-state answer (quick tier, tables of more than 64 entries: per state the probes of the intervals within +-3 of the hint their own code path consults and +-1 of the other hint, a fixed spread of ~40 probes over the table and all global probes; complete panel for every 25th zone, for small tables and in the thorough tier); plus real two-call sequences over neighbouring intervals. cache part: ALL load sequences of length <= 4 (5) over {A, A2 (same bytes), B, file:B (different bytes), X (unserved), a canonical and a non-canonical fixed name, an out-of-range fixed-shaped name, UTC, BAD (served but rejected)} from an emptied cache with a counting data source, plus one long history (2000 failing + 2000 valid + 2000 out-of-range fixed-shaped names loaded once, then reloaded in both orders: no second consultation, same identities). text part: every ordered pair (thorough: triple) of format()/parse() calls over a 16-call alphabet (short and long C-library runs, runs beyond the 16x growth limit, library-rendered specifiers, week dates, %s, an invalid date), each sequence in a fresh child process, last answer compared with the answer of a process that makes that call first",
    "Explicit-state exploration of the real objects: states = hint pairs / cache contents, transitions = public API calls; in every state every probe must answer as a freshly loaded zone does; reloads return the first identity without consulting the data source; failures stay failures with UTC.",
    ["C14:hints:full-product", "C14:hints:per-direction", "C14:hints:table-size-big", "C14:cache:len4", "C14:cache:long-history", "C14:text:len2"],
    "Trusted base: private members are read/forced via -fno-access-control on the harness TU only; the fresh-state answers themselves are checked against the reference model by C01/C02. Forcing a hint value is the same state an API call leaves (asserted per zone by reading the members after real calls).",
    engine="E2", min_eval=1000000,
    technique="explicit-state model checking on the implementation: exhaustive enumeration of the hidden-state space (hint indices x probe panel; name-cache contents x load sequences) with a differential oracle against the fresh state")
CHECKS["C14"]["budget"] = {"quick": 480, "thorough": 5400}


def c12_post(rundir, merged):
    """Compare the per-case outcome hashes of the three builds: the outcome must be a function of the bytes alone."""
    import struct
    out = []
    files = [os.path.join(rundir, n) for n in ("h_asan.bin", "h_pattern.bin", "h_zero.bin")]
    data = []
    for f in files:
        data.append(open(f, "rb").read() if os.path.exists(f) else b"")
    n = min(len(d) for d in data) // 8
    merged["counters"]["determinism_cases_compared"] = n
    if n == 0:
        merged["notes"].append("BROKEN: no outcome hashes to compare")
        return out
    diffs = 0
    for i in range(n):
        a, b, c = (d[8 * i:8 * i + 8] for d in data)
        if a == b"\0" * 8 or b == b"\0" * 8 or c == b"\0" * 8:
            continue  # case not executed in one of the builds (skipped after a crash / deviating source)
        if not (a == b == c):
            diffs += 1
            if len(out) < 20:
                out.append({"sig": "C12:outcome-differs-between-builds", "msg": "case %d: outcome hash differs between the sanitizer build / clang auto-var-init=pattern (MALLOC_PERTURB_=165) / clang auto-var-init=zero (MALLOC_PERTURB_=90): %s %s %s" % (i, a.hex(), b.hex(), c.hex()), "replay_args": ["--case", str(i)], "harness": "fault_enum"})
    merged["counters"]["determinism_differences"] = diffs
    return out


def c12_vac(res, tier):
    need = ["C12:truncate", "C12:bitflip", "C12:count", "C12:time", "C12:footer", "C12:env-read", "C12:count2", "C12:typeidx-x-typecnt", "C12:splice", "C12:degenerate"]
    missing = [c for c in need if not any(k.startswith(c) for k in res["classes"])]
    if missing:
        return "operator classes never exercised: " + ", ".join(missing)
    if not any(k.endswith(":loads") for k in res["classes"]) or not any(k.endswith(":rejected") for k in res["classes"]):
        return "mutants never loaded / never rejected"
    if res["counters"].get("determinism_cases_compared", 0) < 10000:
        return "determinism comparison did not run"
    return None


CHECKS["C12"] = {
    "title": "loading arbitrary bytes is memory-safe, terminating, deterministic",
    "steps": [{"harness": "fault_enum", "args": ["--hashes", "{rundir}/h_asan.bin"], "share": 0.6,
               "env": {"UBSAN_OPTIONS": "print_stacktrace=0:halt_on_error=0", "ASAN_OPTIONS": "detect_leaks=0:allocator_may_return_null=1:max_allocation_size_mb=4096"}},
              {"harness": "fault_enum_pat", "args": ["--hash-only", "--hashes", "{rundir}/h_pattern.bin"], "env": {"MALLOC_PERTURB_": "165"}, "share": 0.2},
              {"harness": "fault_enum_zero", "args": ["--hash-only", "--hashes", "{rundir}/h_zero.bin"], "env": {"MALLOC_PERTURB_": "90"}, "share": 0.2}],
    "post": c12_post,
    "level": "fault_enumeration", "engine": "E4",
    "technique": "deviation-bounded exhaustive fault enumeration: every single deviation of a stated operator set (and stated pairs) applied to well-formed seeds, each loaded into the real library under ASan+UBSan with a per-input report hook and watchdog; differential determinism check across auto-var-init builds",
    "rule": "seeds (10 shipped + 7 synthetic quick; thorough: the same 10 + 11 synthetic as primary seeds, plus every distinct shipped zone file (~430) as a non-primary seed with a reduced operator set: bit flips outside the time/index arrays, every 16th corpus footer, sub-sampled count pairs, splices against primary seeds) x operators: truncate to every length; every byte x {8 bit flips, 00, ff}; every header count x 13 values with/without padding; version/magic bytes; every type-index byte x 4; every ttinfo field x boundary values; every 8-byte time x 14 values; abbreviation NULs; footer := each string of the C16 corpus + stress footers; header/body splices between all seed pairs; data-source deviations (k-th Read short/empty/1 byte for k<40, failing Skip, 64 KiB Version); depth 2: pairs of count edits, time x footer, type-index x typecnt, truncate x count; structure-aware degenerate files: the complete product of header counts (timecnt 0-2, typecnt {0,1,2,255,256,257}, charcnt {0,1,4,8}, indicator counts {0, typecnt, typecnt+1}, leapcnt 0/1, 3 type-index patterns) under 5 version-1 headers and 4 footers, each with a body of exactly the declared size; inputs whose declared data length exceeds 64 MiB (512 MiB) are outside the property's precondition and skipped; class = operator x loads/rejected",
    "design_ref": "DESIGN.md 3/C12",
    "text": "Each mutant is loaded twice under different names in the sanitizer build (UBSan reports captured per input, ASan fatal, 20 s no-progress watchdog); a failed load must leave UTC; on a loaded zone the totality panel (extreme lookups both ways, transition chains, format) must run clean and give the same answers both times; per-case outcome hashes must agree with two uninstrumented clang builds that pre-fill automatic variables differently.",
    "level_note": "Trusted base: ASan/UBSan runtimes, the watchdog, the reference TZif reader used only to describe inputs (facts for known-finding predicates). Bounds: one deviation per input (pairs only for the listed interacting operators); no claim for inputs that need three simultaneous deviations.",
    "assumptions": ["enough memory for the data length the header declares (inputs declaring more than the cap are skipped)"],
    "vacuity": c12_vac, "budget": {"quick": 400, "thorough": 5400},
}

TEXT_NOTE = ("Trusted base: ref_text.h (left-to-right tokenizer/renderer/matcher written from the documentation in time_zone.h), ref_civil.h, glibc strftime/strptime "
             "(the property itself defers to them); locale pinned to C. Zone lookups on the parse side of real zones use the library's own lookup(civil).pre, which C02 validates.")
CHECKS["C07"] = mk_simple("C07", "text_conf", "format() then parse() returns the original instant",
    "zones (19 fixed offsets incl. +-1 s, +-30 s, +-59 s, +-24h; 14 (25) shipped zones covering sub-minute LMT, 30/45-minute and date-line offsets; synthetic zones) x instants (civil years of 1..12 digits of either sign incl. year 0, the ends of the range +-{0,1,1 day}, each zone's first/last transitions and every 16th, +-1 s) x femtosecond values {0,1,9,10,99,101,10^6+-1,5e14,1e15-1,...} x generated lossless formats (8 date forms incl. %U/%W week dates, month names, %E4Y; 4 time forms; 5 offset forms (minute-resolution ones only for zones whose every offset is a whole minute); 3 orders; 3 separators) plus %s; each text parsed back in UTC, in the zone itself and in a zone with a gap there; class = year shape / sub-second sweep / %s",
    "The composition law parse(fmt, format(fmt, t, fs, tz), any_zone) == (true, t, fs) is evaluated on the real library over the complete product (quick: a covering subset of format combinations in which every part value and every part pair with the date form occurs); no reference model needed.",
    ["C07:negative-year", "C07:many-digit-year", "C07:plain-year", "C07:all-subseconds", "C07:percent-s"], TEXT_NOTE, min_eval=1000000)
CHECKS["C08"] = mk_simple("C08", "text_conf", "format() renders exactly what lookup() reports; no UB",
    "ALL token sequences of length <= 3 (4) over a 37-token alphabet (%, E, O, :, *, digits 0,1,4,9,15,18,19,1024,1025, every library-defined conversion letter, a, j, c, x, space, a UTF-8 byte pair, NUL) = 52,060 (1.9 M) format strings x a panel of 14 (zone, instant, femtoseconds) triples taking every field to its extreme; plus ALL sequences of 2-3 units over a 59-unit alphabet (incl. %E19S, %E33f, %E34S, %E1024f) (whole specifiers of both kinds, %% and %%%%, literals that look like conversion letters, dangling prefixes) x 4 (14) panel triples; plus every documented specifier alone and in RFC3339/RFC1123 combinations, strftime-delegated specifiers with flags/modifiers, on every zone x probe; ASan+UBSan build; class = rendered / malformed (safety only) / C-library run beyond the documented buffer growth limit",
    "Safety for every string (sanitizers, determinism); for well-formed strings the output must equal the reference rendering: library-defined specifiers rendered from lookup()'s fields by the documentation, every other run rendered by glibc strftime on a tm built independently from the same fields.",
    ["C08:rendered", "C08:malformed"], TEXT_NOTE, min_eval=500000)
CHECKS["C09"] = mk_simple("C09", "text_conf", "parse() accepts exactly well-formed in-range input",
    "(a) complete product of field boundary values (11 years incl. INT64 limits and the first/last representable, months, days 1/28..31, hours, minutes, seconds 0/59/60, 11 offset spellings, 6 fraction lengths) through an RFC3339 format; every documented specifier alone with its accept/reject boundary inputs, with surrounding blanks, literals and other zones; (b) EVERY single edit (delete, replace, insert over 12 symbols) of 19 accepted (format, input) pairs, parsed in three zones; (c) zone interaction: skipped/repeated/shifted-year civil times and the first/last representable second of fixed zones, with and without offsets; for every zone the civil seconds displayed around each recorded transition, their ':60' spelling and +-30 min; (d) all format strings of <= 2 (3) tokens of C08's alphabet x 40 inputs (safety; outcome compared where the reference has an opinion); class = generator x accept/reject as decided by the reference",
    "Accept/reject and the returned instant/femtoseconds must equal the reference matcher (documented semantics only; behaviours the documentation leaves open are don't-cares and checked for safety only).",
    ["C09:boundary-product:accept", "C09:boundary-product:reject", "C09:specifier-boundaries:accept", "C09:specifier-boundaries:reject", "C09:edit-replace:reject", "C09:edit-delete:accept", "C09:zone-interaction:accept", "C09:zone-interaction:reject", "C09:zone-transition:accept", "C09:zone-transition-leap60:accept", "C09:safety-panel"],
    TEXT_NOTE, min_eval=150000)
CHECKS["C18"] = mk_simple("C18", "subsecond", "sub-second time points floor toward the past",
    "duration panel {int64 ns/us/ms/(1/3 s)/(1/60 s)/fs; ticks of 2.5 s (int64) and 1.5 s (int32), every count in +-20000 and at the int32 limits; int64 s; int32 min, h; int16 s, min; int8 s, min}: EVERY value of the int8/int16 representations; [-1e5,1e5] and both limits -+1000 for int32; for int64 sub-second reps whole seconds {-2,-1,0,1,+-59,+-60,+-3599..3601,+-86400,+-2^31, limits -+2..4} x remainders {0,1,2,ratio/2-1..+1,ratio-2,ratio-1,10^k-1,10^k,10^k+1} on both sides of zero; x zones {UTC, fixed -30 s, fixed +5:45}; on each: split_seconds, lookup, convert, format %E*S, %E*f, %E#S/%E#f for # in {0,1,2,3,6,9,12,14,15,16,18,19,25,33,34,100}; parse (via %s and via %Y-%m-%d %H:%M:%S) into {int64/int32/int16/int8 s, int8/int16/int32/int64 min, int32/int64 h, int64 days} for every second within +-2 h of the epoch and within +-(2 units+2) of both limits of each target; class = duration x sign x multiple/non-multiple x in/out of range",
    "128-bit floor division is the oracle: second = floor(count*num/den), remainder >= 0, fractional digits truncated (never rounded); parse into a coarse target = floor(sec/Num) if it fits the representation, otherwise false.",
    ["C18:int64-ns:neg-nonmultiple", "C18:int8-s:neg-multiple", "C18:int64-third:neg-nonmultiple", "C18:parse:int32-h:neg-nonmultiple", "C18:parse:int8-min:out-of-range", "C18:parse:int16-s:out-of-range"],
    "Trusted base: ref_civil.h; parse into sub-second targets near their limits is excluded (documented TODO #199; the property restricts itself to whole seconds or coarser).",
    min_eval=1000000)
CHECKS["C19"] = mk_simple("C19", "env_enum", "zone names resolve as documented; failures fall back to UTC",
    "complete product TZDIR in {unset, empty, valid dir, missing dir, valid dir with trailing /} x TZ in {unset, empty, X, :X, ::X, localtime, :localtime, invalid, absolute path, UTC, ':', fixed name, localtime2, LOCALTIME, file:X} x LOCALTIME in {unset, valid path, invalid path, empty, relative name} = 375 environments, each in a fresh exec of the probe; in each: 29 names + every truncation of two zone files within their footer region (relative valid/missing, absolute valid/missing, file:-prefixed, empty, a directory, 0-byte file, files truncated at each structural boundary, garbage, a leap-second file, ':'-prefixed, UTC, UTC0, fixed names, case/slash variants) + local_time_zone() + default-constructed zone; class = call kind x expected outcome",
    "Every (environment, name) pair is resolved by a reference resolver written from the header comments (name -> path -> reference TZif reader); returned bool, UTC identity, name() and the offsets/abbreviations at three instants must match; a second load in the same process must agree.",
    ["C19:load:zone", "C19:load:fallback-utc", "C19:load:utc", "C19:local:zone", "C19:local:fallback-utc"],
    "Trusted base: the reference resolver (40 lines) and reference TZif reader; what /etc/localtime and /usr/share/zoneinfo are on the machine is read, not assumed. Runs as root, so permission-denied files are not covered.",
    engine="E4", min_eval=5000,
    technique="exhaustive configuration enumeration: the complete product of environment settings x zone names, each executed in a fresh process, against a reference resolver")
CHECKS["C19"]["level"] = "fault_enumeration"

# C10 always runs in the sanitizer build: the sanitizer is its oracle.
CHECKS["C10"]["steps"] = lambda tier: [{"harness": "zone_conf", "args": []}]


def gen_manifest(verif):
    props = [json.loads(l) for l in open(os.path.join(verif, "properties.jsonl"))]
    checks = []
    for p in props:
        pid = p["id"]
        if pid not in CHECKS:
            continue
        c = CHECKS[pid]
        checks.append({
            "property_id": pid,
            "quick_cmd": "bin/check %s quick" % pid,
            "thorough_cmd": "bin/check %s thorough" % pid,
            "evidence_file": "evidence/%s.json" % pid,
            "replay_cmd_template": "bin/check %s --replay {path}" % pid,
            "engine": c["engine"],
            "level_claimed": {"category": c["level"], "text": c["text"], "design_ref": c["design_ref"]},
            "level_note": c["level_note"],
            "technique": c["technique"],
        })
    na_path = os.path.join(verif, "bin", "not_applicable.json")
    na_reasons = json.load(open(na_path)) if os.path.exists(na_path) else {}
    na = []
    for p in props:
        if p["id"] not in CHECKS:
            na.append({"property_id": p["id"], "reason": na_reasons.get(p["id"], "check not built yet (framework under construction); planned, see DESIGN.md section 3")})
    m = {
        "version": 1,
        "setup_cmd": "bin/check --build-only",
        "hooks": {
            "guard": "CCTZ_VERIF_SCHED",
            "enable": "no source hooks are committed to /repo: every check compiles /repo/src/*.cc itself from the working tree; the schedule explorer adds -DCCTZ_VERIF_SCHED -include /verif/src/sched/hook.h on its own compile lines only",
            "baseline_off_cmd": "cmake -S /repo -B /repo/_build -G Ninja >/dev/null && cmake --build /repo/_build >/dev/null && ctest --test-dir /repo/_build -j8 --timeout 900",
            "source_commits": [],
            "add_only": True,
        },
        "engines": [
            {"name": "E1", "path": "src/harness/zone_conf.cc, src/harness/*_conf.cc", "serves_properties": [k for k, v in CHECKS.items() if v["engine"] == "E1"],
             "kind_free_text": "bounded-exhaustive conformance of the real library against an executable reference model over a completely enumerated finite domain"},
            {"name": "E2", "path": "src/harness/hidden_state.cc", "serves_properties": [k for k, v in CHECKS.items() if v["engine"] == "E2"],
             "kind_free_text": "explicit-state BFS over the hidden hint/cache state of the live objects"},
            {"name": "E3", "path": "src/sched/", "serves_properties": [k for k, v in CHECKS.items() if v["engine"] == "E3"],
             "kind_free_text": "stateless preemption-bounded schedule exploration of the real loader under a controlled scheduler"},
            {"name": "E4", "path": "src/harness/fault_enum.cc, src/harness/env_enum.cc", "serves_properties": [k for k, v in CHECKS.items() if v["engine"] == "E4"],
             "kind_free_text": "deviation-bounded enumeration of inputs / environment answers under sanitizers"},
        ],
        "checks": checks,
        "notes": "See DESIGN.md. Every check rebuilds cctz from /repo's working tree (content-hash cached under /verif/build).",
        "not_applicable": na,
    }
    with open(os.path.join(verif, "MANIFEST.json"), "w") as f:
        json.dump(m, f, indent=1)
    print("MANIFEST.json written: %d checks, %d not_applicable" % (len(checks), len(na)))
