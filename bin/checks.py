"""Table of build variants, harnesses and per-property checks (used by bin/check)."""
import json
import os

VERIF = os.path.dirname(os.path.dirname(os.path.abspath(__file__)))

COMMON = ["-std=c++17", "-Wall", "-Wno-unused-function", "-Wno-sign-compare", "-Wno-unused-variable"]
VARIANTS = {
    # sanitizer build: the sanitizer is part of the oracle (abort on first report)
    "asan": {"cxx": "g++", "flags": COMMON + ["-O1", "-g", "-fno-omit-frame-pointer",
                                              "-fsanitize=address,undefined", "-fno-sanitize-recover=all"]},
    "plain": {"cxx": "g++", "flags": COMMON + ["-O2"]},
}

RUN_ENV = {
    "ASAN_OPTIONS": "detect_leaks=0:abort_on_error=0:allocator_may_return_null=1:max_allocation_size_mb=4096",
    "UBSAN_OPTIONS": "print_stacktrace=1:halt_on_error=1",
    "TZ": "UTC", "LC_ALL": "C", "LANG": "C",
}

HARNESSES = {
    "zone_conf": {"srcs": ["src/harness/zone_conf.cc"], "variant": "asan"},
    "zone_conf_fast": {"srcs": ["src/harness/zone_conf.cc"], "variant": "plain"},
}

SETUP_VARIANTS = ["asan", "plain"]
SETUP_HARNESSES = ["zone_conf"]

E1_LEVEL_NOTE = ("Trusted base: the reference model in /verif/src/common (128-bit calendar, RFC 9636 TZif reader, "
                 "POSIX TZ evaluator - written from the specifications, self-checked by a brute-force day walk), "
                 "g++ 12 / glibc, the sanitizer runtime. Coverage is the stated finite domain, enumerated completely; "
                 "no claim outside it beyond the piecewise-affine argument of DESIGN.md 2.4.")


def zone_steps(tier):
    if tier == "thorough":
        return [{"harness": "zone_conf_fast", "args": []}]
    return [{"harness": "zone_conf", "args": []}]


def vac_min(counter, minimum, classes_min=2):
    def f(res, tier):
        if res["counters"].get(counter, 0) < minimum:
            return "%s = %s < %s" % (counter, res["counters"].get(counter, 0), minimum)
        if len(res["classes"]) < classes_min:
            return "only %d behaviour classes hit" % len(res["classes"])
        return None
    return f


def mk_zone(pid, title, rule, design_ref, text, need_classes):
    def vac(res, tier):
        if res["counters"].get("zones", 0) < 600:
            return "fewer than 600 zones processed (%s)" % res["counters"].get("zones", 0)
        missing = [c for c in need_classes if not any(k.startswith(c) for k in res["classes"])]
        if missing:
            return "behaviour classes never hit: " + ", ".join(missing)
        return None
    return {
        "title": title, "steps": zone_steps, "level": "model_checking", "engine": "E1",
        "technique": "bounded-exhaustive conformance checking of the implementation against an executable reference model (complete enumeration of a finite breakpoint-derived domain; no sampling)",
        "rule": rule, "design_ref": design_ref, "text": text, "level_note": E1_LEVEL_NOTE,
        "assumptions": ["reference model (ref_zone.h) is the specification oracle", "zones are well-formed (zic-producible); generator filters decided by the reference only",
                        "between consecutive breakpoints both model and implementation are t -> t + const"],
        "vacuity": vac, "budget": {"quick": 240, "thorough": 3000},
    }


ZONE_RULE = ("domain = (598 shipped TZif files + synthetic family of tzgen.h) x probes derived from the reference timeline's breakpoints "
             "(every file transition, rule transitions of years last-1..last+402 and of the 400-year images n in {1,2,3,23,1e3,1e6,nmax-1,nmax}, "
             "Jan 1 of those years, +-2^31, +-2^59, 0, min, max), each +-k seconds (k=2 quick, 3 thorough) and +-|offset change| +-{0,1}; "
             "behaviour class = region of the timeline x kind as classified by the reference; distinct_nontrivial = number of such classes hit")

CHECKS = {
    "C01": mk_zone("C01", "instant -> civil follows the TZif data", ZONE_RULE, "DESIGN.md 3/C01",
                   "Every probe instant of every corpus zone is looked up in the real library and compared field by field (offset, is_dst, abbreviation, civil second) with an independent 128-bit reading of the same bytes that neither extends nor folds by 400 years; every corpus zone must load.",
                   ["C01:before-first", "C01:file", "C01:rule-window", "C01:rule-shift1", "C01:rule-shiftN", "C01:seam-year"]),
    "C02": mk_zone("C02", "civil -> instant kinds and pre/trans/post", ZONE_RULE + "; civil probes = images of the instants under both neighbouring offsets plus civil_second::min/max and the first/last convertible second per offset",
                   "DESIGN.md 3/C02",
                   "For every civil probe the set of instants displaying it is computed on the unbounded reference timeline; kind, pre, trans, post (clamped) must match.",
                   ["C02:unique", "C02:skipped", "C02:repeated"]),
    "C03": mk_zone("C03", "round trip", ZONE_RULE, "DESIGN.md 3/C03",
                   "Composition law evaluated on the real library for every probe instant (forward) and every civil probe (reverse); no reference needed.",
                   ["C03:fwd:unique", "C03:fwd:repeated", "C03:rev:unique", "C03:rev:repeated"]),
    "C06": mk_zone("C06", "convert(civil) is monotone", ZONE_RULE + "; adjacent pairs of the sorted civil probe list decide all pairs (transitivity)", "DESIGN.md 3/C06",
                   "convert() evaluated on the sorted civil probe list of every zone; adjacent pairs must be ordered and every value must equal the reference (trans if skipped else pre, clamped).",
                   ["C06:unique", "C06:skipped", "C06:repeated"]),
    "C10": mk_zone("C10", "totality and saturation at the ends", "boundary domain of DESIGN.md C10: {min,max,+-2^59,+-2^31,0, 400-year multiples near the limits, first/last transitions} +- {0..3, 86400j+-1} plus the outermost two days at stride 3599 s (quick) / 7 s (thorough), civil images under every offset of the zone, civil_second::min/max +- 0..3; all six conversions called under ASan+UBSan",
                   "DESIGN.md 3/C10",
                   "Sanitizer-instrumented sweep of the boundary domain in every zone; saturated answers must be exactly min()/max() where the 128-bit reference places the instant outside the range and exact otherwise.",
                   ["C10:unique", "C10:last-representable", "C10:one-past-last", "C01:rule-shiftN"]),
    "C11": mk_zone("C11", "next/prev_transition enumerate the real changes", ZONE_RULE + "; plus full forward chain from min() and backward chain from max()", "DESIGN.md 3/C11",
                   "Forward and backward chains are walked on the real library and compared element by element with the reference's list of real changes; point queries at every probe and at each chain element +-1.",
                   ["C11:chain-extended", "C11:chain-file-only", "C11:next:just-before", "C11:query-at-change", "C11:prev:has", "C11:prev:none"]),
}
# C10 always runs in the sanitizer build: the sanitizer is its oracle.
CHECKS["C10"]["steps"] = lambda tier: [{"harness": "zone_conf", "args": []}]


def gen_manifest(verif):
    props = [json.loads(l) for l in open(os.path.join(verif, "properties.jsonl"))]
    checks = []
    for p in props:
        pid = p["id"]
        if pid not in CHECKS:
            continue
        c = CHECKS[pid]
        checks.append({
            "property_id": pid,
            "quick_cmd": "bin/check %s quick" % pid,
            "thorough_cmd": "bin/check %s thorough" % pid,
            "evidence_file": "evidence/%s.json" % pid,
            "replay_cmd_template": "bin/check %s --replay {path}" % pid,
            "engine": c["engine"],
            "level_claimed": {"category": c["level"], "text": c["text"], "design_ref": c["design_ref"]},
            "level_note": c["level_note"],
            "technique": c["technique"],
        })
    na_path = os.path.join(verif, "bin", "not_applicable.json")
    na_reasons = json.load(open(na_path)) if os.path.exists(na_path) else {}
    na = []
    for p in props:
        if p["id"] not in CHECKS:
            na.append({"property_id": p["id"], "reason": na_reasons.get(p["id"], "check not built yet (framework under construction); planned, see DESIGN.md section 3")})
    m = {
        "version": 1,
        "setup_cmd": "bin/check --build-only",
        "hooks": {
            "guard": "CCTZ_VERIF_SCHED",
            "enable": "no source hooks are committed to /repo: every check compiles /repo/src/*.cc itself from the working tree; the schedule explorer adds -DCCTZ_VERIF_SCHED -include /verif/src/sched/hook.h on its own compile lines only",
            "baseline_off_cmd": "cmake -S /repo -B /repo/_build -G Ninja >/dev/null && cmake --build /repo/_build >/dev/null && ctest --test-dir /repo/_build -j8 --timeout 900",
            "source_commits": [],
            "add_only": True,
        },
        "engines": [
            {"name": "E1", "path": "src/harness/zone_conf.cc, src/harness/*_conf.cc", "serves_properties": [k for k, v in CHECKS.items() if v["engine"] == "E1"],
             "kind_free_text": "bounded-exhaustive conformance of the real library against an executable reference model over a completely enumerated finite domain"},
            {"name": "E2", "path": "src/harness/hidden_state.cc", "serves_properties": [k for k, v in CHECKS.items() if v["engine"] == "E2"],
             "kind_free_text": "explicit-state BFS over the hidden hint/cache state of the live objects"},
            {"name": "E3", "path": "src/sched/", "serves_properties": [k for k, v in CHECKS.items() if v["engine"] == "E3"],
             "kind_free_text": "stateless preemption-bounded schedule exploration of the real loader under a controlled scheduler"},
            {"name": "E4", "path": "src/harness/fault_enum.cc, src/harness/env_enum.cc", "serves_properties": [k for k, v in CHECKS.items() if v["engine"] == "E4"],
             "kind_free_text": "deviation-bounded enumeration of inputs / environment answers under sanitizers"},
        ],
        "checks": checks,
        "notes": "See DESIGN.md. Every check rebuilds cctz from /repo's working tree (content-hash cached under /verif/build).",
        "not_applicable": na,
    }
    with open(os.path.join(verif, "MANIFEST.json"), "w") as f:
        json.dump(m, f, indent=1)
    print("MANIFEST.json written: %d checks, %d not_applicable" % (len(checks), len(na)))
