#!/bin/bash
# seed_eval.sh <worktree> <seed-id> <property> <check-id>...
# Confirms a seeded change (tests pass with it, demo fails with it, demo passes without),
# runs the named checks against /repo with the change applied (undone straight afterwards),
# and stores everything under /verif/seeded/<seed-id>/.
set -u
WT=$1; SID=$2; PROP=$3; shift 3
OUT=/verif/seeded/$SID
mkdir -p $OUT
LOG=$OUT/eval.log
: > $LOG
cd $WT || exit 2
[ -f mutation.patch ] || { echo "no mutation.patch"; exit 2; }
git checkout -q -- src include
bash demo/run_demo.sh $WT >>$LOG 2>&1; ORIG=$?
git apply mutation.patch || { echo "patch does not apply"; exit 2; }
bash demo/run_demo.sh $WT >>$LOG 2>&1; MUT=$?
rm -rf _build
( cmake -S . -B _build -G Ninja -DCMAKE_BUILD_TYPE=Release >/dev/null && cmake --build _build >/dev/null && ctest --test-dir _build -j8 ) >>$LOG 2>&1; TESTS=$?
rm -rf _build
echo "demo_on_original=$ORIG demo_on_mutant=$MUT tests_with_mutant=$TESTS"
cp mutation.patch $OUT/patch.diff
mkdir -p $OUT/demo && cp -r demo/. $OUT/demo/
[ -f REPORT.md ] && cp REPORT.md $OUT/REPORT.md
# run the checks against /repo with the patch applied
cd /repo && git apply $OUT/patch.diff || { echo "cannot apply to /repo"; exit 2; }
RES=""
for c in "$@"; do
  VERIF_ALT=1 /verif/bin/check $c quick > $OUT/check_$c.out 2>&1; rc=$?
  RES="$RES $c:$rc"
done
git -C /repo checkout -- .
echo "checks:$RES"
python3 - "$SID" "$PROP" "$ORIG" "$MUT" "$TESTS" "$RES" <<'PY'
import json,sys,os
sid,prop,orig,mut,tests,res=sys.argv[1:7]
out='/verif/seeded/'+sid
meta={"seed_id":sid,"property":prop,
 "confirmed":{"demo_exit_on_original":int(orig),"demo_exit_on_mutant":int(mut),"repo_tests_exit_with_mutant":int(tests)},
 "checks_run_quick":{k:int(v) for k,v in (x.split(':') for x in res.split())},
 "what_ran":"bin/seed_eval.sh: demo on clean worktree, demo + cmake/ctest (125 tests) with patch, then `git -C /repo apply patch.diff`, bin/check <id> quick for each listed check, `git -C /repo checkout -- .`",
 "needs_to_manifest":"see REPORT.md"}
if os.path.exists(out+'/meta.json'):
    old=json.load(open(out+'/meta.json'))
    for k in ("needs_to_manifest","notes"):
        if k in old and old[k]!="see REPORT.md": meta[k]=old[k]
json.dump(meta,open(out+'/meta.json','w'),indent=1)
PY
